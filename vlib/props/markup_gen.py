"""Generators shared by C10 and the markup half of C07.

Everything here is the *generator's* view of the markup language: it prints spellings and canonical markup
on its own and hands the structured value (spelling list / element list) to the Lean oracle in the
configuration prefix; the oracle re-prints it with `Tpp.Ref.Markup` and fails the case if the two disagree,
so a divergence between this file and the specification cannot pass silently.
"""
from ..core import Case

BS = 0x5C
# enum codes as stored by the library (the oracle reads them back through the regenerated constants)
BOLD, FAINT, NORMAL = 1, 2, 22
UNDERLINED, NOT_UNDERLINED = 4, 24
NEGATIVE, POSITIVE = 7, 27
BLINK, STEADY = 5, 25
US_ASCII, UTF8 = 5, 18
DEFAULT_COLOUR = (0, 9, 0, 0)
DEFAULT_ATTR = (DEFAULT_COLOUR, DEFAULT_COLOUR, NORMAL, NOT_UNDERLINED, POSITIVE, STEADY)

# Ref.designators, in the same order: (bytes, charset code)
DESIGNATORS = [
    (b"0", 0), (b"<", 1), (b"%5", 2), (b">", 3), (b"A", 4), (b"B", 5), (b"4", 6), (b"C", 7), (b"5", 7),
    (b"R", 8), (b"f", 8), (b"Q", 9), (b"9", 9), (b"K", 10), (b"Y", 11), (b"`", 12), (b"E", 12), (b"6", 12),
    (b"%6", 13), (b"Z", 14), (b"H", 15), (b"7", 15), (b"=", 16), (b"U", 17),
]
PRIMARY = {0: b"0", 1: b"<", 2: b"%5", 3: b">", 4: b"A", 5: b"B", 6: b"4", 7: b"C", 8: b"R", 9: b"Q", 10: b"K",
           11: b"Y", 12: b"`", 13: b"%6", 14: b"Z", 15: b"H", 16: b"=", 17: b"U"}


def hx(data):
    data = bytes(data)
    return data.hex() if data else "-"


# ---------------------------------------------------------------- spellings
# a directive / glyph is a pair (bytes, token)

def d_charset(i):
    return (b"\\c" + DESIGNATORS[i][0], "c%d" % i)


def d_intensity(k):
    return {BOLD: (b"\\i>", "ib"), FAINT: (b"\\i<", "if"), NORMAL: (b"\\i=", "in")}[k]


def d_polarity(k):
    return {POSITIVE: (b"\\p+", "pp"), NEGATIVE: (b"\\p-", "pn")}[k]


def d_underlining(k):
    return {UNDERLINED: (b"\\u+", "uu"), NOT_UNDERLINED: (b"\\u-", "un")}[k]


def d_low(fg, d):
    return ((b"\\[" if fg else b"\\]") + b"%d" % d, "l%s%d" % ("f" if fg else "b", d))


def d_high(fg, r, g, b):
    return ((b"\\<" if fg else b"\\>") + b"%d%d%d" % (r, g, b), "h%s%d%d%d" % ("f" if fg else "b", r, g, b))


def d_grey(fg, n):
    return ((b"\\{" if fg else b"\\}") + b"%02d" % n, "g%s%d" % ("f" if fg else "b", n))


def d_true(fg, hexchars):
    """hexchars: 6 characters, each a hex digit in either case"""
    return ((b"\\(" if fg else b"\\)") + hexchars.encode(), "t%s%s" % ("f" if fg else "b", hexchars))


D_RESET = (b"\\x", "x")


def g_lit(b):
    return (b"\\\\" if b == BS else bytes([b]), "L%d" % b)


def g_code(b):
    return (b"\\C%03d" % b, "C%d" % b)


def g_uni(hexchars):
    return (b"\\U" + hexchars.encode(), "U" + hexchars)


def mixed_hex(rng, value, width):
    s = "%0*x" % (width, value)
    return "".join(c.upper() if rng.random() < 0.5 else c for c in s)


def random_directive(rng):
    k = rng.randrange(12)
    fg = rng.random() < 0.5
    if k == 0:
        return d_charset(rng.randrange(24))
    if k == 1:
        return d_intensity(rng.choice([BOLD, FAINT, NORMAL]))
    if k == 2:
        return d_polarity(rng.choice([POSITIVE, NEGATIVE]))
    if k == 3:
        return d_underlining(rng.choice([UNDERLINED, NOT_UNDERLINED]))
    if k in (4, 5):
        return d_low(fg, rng.randrange(10))
    if k in (6, 7):
        return d_high(fg, rng.randrange(6), rng.randrange(6), rng.randrange(6))
    if k == 8:
        return d_grey(fg, rng.choice([0, 1, 9, 10, 19, 20, 23, rng.randrange(24)]))
    if k in (9, 10):
        v = rng.choice([0, 0xFFFFFF, 0xA917BE, 0x0A0B0C, rng.randrange(1 << 24), rng.randrange(1 << 24)])
        return d_true(fg, mixed_hex(rng, v, 6))
    return D_RESET


UNI_EDGES = [0, 1, 0x20, 0x41, 0x5C, 0x7E, 0x7F, 0x80, 0x81, 0xFF, 0x100, 0x3FF, 0x7FE, 0x7FF, 0x800, 0x801, 0xFFF,
             0x1000, 0x263A, 0xD7FF, 0xD800, 0xDFFF, 0xE000, 0xFFFD, 0xFFFE, 0xFFFF]


def random_glyph(rng):
    k = rng.randrange(10)
    if k < 4:
        return g_lit(rng.choice([rng.randrange(0x20, 0x7F), rng.randrange(256), BS, 0, 0x80, 0xFF, 0x78, 0x43]))
    if k < 6:
        return g_code(rng.choice([rng.randrange(256), 0, 9, 10, 99, 100, 199, 200, 255, 92]))
    v = rng.choice(UNI_EDGES) if rng.random() < 0.4 else rng.randrange(0x10000)
    return g_uni(mixed_hex(rng, v, 4))


def random_spelling(rng):
    n = rng.choice([0, 0, 0, 1, 1, 2, 3, 5, 8]) if rng.random() < 0.97 else rng.choice([30, 45, 64, 90])
    ds = []
    for _ in range(n):
        d = random_directive(rng)
        ds.append(d)
        if rng.random() < 0.15:       # redundancy: the same directive again, or a second value for the same field
            ds.append(d if rng.random() < 0.5 else random_directive(rng))
    return ds + [random_glyph(rng)]


def spelling_case(kind, spellings, **kw):
    """spellings: list of lists of (bytes, token)"""
    data = b"".join(b for sp in spellings for b, _ in sp)
    toks = " ".join(t for sp in spellings for _, t in sp)
    # the configuration is part of the case line (ignored by executor and model, read by the oracle), so
    # that a replay file reproduces the verdict
    return Case("%s %s S %s" % (kind, hx(data), toks), **kw)


# ---------------------------------------------------------------- elements and canonical markup
# element = (cs, b0, b1, b2, attr) ; attr = (fg, bg, intensity, underlining, polarity, blinking)
DEFAULT_ELEMENT = (US_ASCII, 0x20, 0, 0, DEFAULT_ATTR)


def utf8_bytes(v):
    if v < 0x80:
        return [v]
    if v < 0x800:
        return [0xC0 + v // 64, 0x80 + v % 64]
    return [0xE0 + v // 4096, 0x80 + v // 64 % 64, 0x80 + v % 64]


def code_point(b0, b1, b2):
    if b0 < 0x80:
        return b0
    if b0 < 0xE0:
        return (b0 - 0xC0) * 64 + (b1 - 0x80)
    return (b0 - 0xE0) * 4096 + (b1 - 0x80) * 64 + (b2 - 0x80)


def colour_markup(fg, c):
    k, a, b, cc = c
    if k == 0:
        return (b"\\[" if fg else b"\\]") + b"%d" % (a % 10)
    if k == 1:
        n = a - 16
        return (b"\\<" if fg else b"\\>") + b"%d%d%d" % (n // 36 % 6, n // 6 % 6, n % 6)
    if k == 2:
        return (b"\\{" if fg else b"\\}") + b"%02d" % ((a - 232) % 24)
    return (b"\\(" if fg else b"\\)") + b"%02X%02X%02X" % (a, b, cc)


def canonical(elements):
    out = b""
    prev = DEFAULT_ELEMENT
    for e in elements:
        cs, b0, b1, b2, attr = e
        pattr = prev[4]
        cs0 = US_ASCII if prev[0] == UTF8 else prev[0]
        if cs != UTF8 and cs != cs0:
            out += b"\\c" + PRIMARY[cs]
        if attr != pattr:
            if attr == DEFAULT_ATTR:
                out += b"\\x"
            else:
                if attr[2] != pattr[2]:
                    out += d_intensity(attr[2])[0]
                if attr[4] != pattr[4]:
                    out += d_polarity(attr[4])[0]
                if attr[3] != pattr[3]:
                    out += d_underlining(attr[3])[0]
                if attr[0] != pattr[0]:
                    out += colour_markup(True, attr[0])
                if attr[1] != pattr[1]:
                    out += colour_markup(False, attr[1])
        if cs == UTF8:
            out += b"\\U%04X" % code_point(b0, b1, b2)
        elif 0x20 <= b0 <= 0x7E:
            out += b"\\\\" if b0 == BS else bytes([b0])
        else:
            out += b"\\C%03d" % b0
        prev = e
    return out


def show_colour(c):
    return "%d %d %d %d" % c


def show_element(e):
    cs, b0, b1, b2, attr = e
    return "%d %d %d %d %s %s %d %d %d %d" % (cs, b0, b1, b2, show_colour(attr[0]), show_colour(attr[1]),
                                              attr[2], attr[3], attr[4], attr[5])


def random_colour(rng):
    k = rng.randrange(8)
    if k < 2:
        return (0, rng.choice([0, 1, 2, 3, 4, 5, 6, 7, 9]), 0, 0)
    if k < 4:
        return (1, rng.choice([16, 231, 16 + rng.randrange(216)]), 0, 0)
    if k < 5:
        return (2, rng.choice([232, 255, 232 + rng.randrange(24)]), 0, 0)
    if k < 7:
        return (3, rng.choice([0, 255, rng.randrange(256)]), rng.randrange(256), rng.choice([0, 255, rng.randrange(256)]))
    return DEFAULT_COLOUR


def random_attr(rng, near=None):
    """edge bias: with probability 1/2 differ from `near` in exactly one field"""
    if near is not None and rng.random() < 0.5:
        a = list(near)
        f = rng.randrange(5)
        if f == 0:
            a[0] = random_colour(rng)
        elif f == 1:
            a[1] = random_colour(rng)
        elif f == 2:
            a[2] = rng.choice([BOLD, FAINT, NORMAL])
        elif f == 3:
            a[3] = rng.choice([UNDERLINED, NOT_UNDERLINED])
        else:
            a[4] = rng.choice([NEGATIVE, POSITIVE])
        return tuple(a)
    if rng.random() < 0.15:
        return DEFAULT_ATTR
    return (random_colour(rng), random_colour(rng), rng.choice([BOLD, FAINT, NORMAL]),
            rng.choice([UNDERLINED, NOT_UNDERLINED]), rng.choice([NEGATIVE, POSITIVE]), STEADY)


def random_expressible(rng, prev):
    attr = random_attr(rng, prev[4])
    if rng.random() < 0.3:
        v = rng.choice(UNI_EDGES) if rng.random() < 0.5 else rng.randrange(0x10000)
        t = utf8_bytes(v) + [0, 0]
        return (UTF8, t[0], t[1], t[2], attr)
    cs = rng.choice([prev[0] if prev[0] != UTF8 else US_ASCII, US_ASCII, rng.randrange(18)])
    b0 = rng.choice([rng.randrange(0x20, 0x7F), rng.randrange(256), BS, 0, 0x7F, 0x80, 0xFF])
    return (cs, b0, 0, 0, attr)


def canonical_case(kind, elements, **kw):
    data = canonical(elements)
    cfg = "K %d %s" % (len(elements), " ".join(show_element(e) for e in elements))
    return Case("%s %s %s" % (kind, hx(data), cfg), **kw)


# ---------------------------------------------------------------- decoder states
# canonical prefix that brings parse_element into each of the 38 handler states (in enum order)
STATE_PREFIX = [
    ("idle", b""), ("escape", b"\\"), ("charcode_0", b"\\C"), ("charcode_1", b"\\C1"), ("charcode_2", b"\\C12"),
    ("charset", b"\\c"), ("charset_ext", b"\\c%"), ("intensity", b"\\i"), ("polarity", b"\\p"),
    ("underlining", b"\\u"),
    ("fg_low_colour", b"\\["), ("fg_high_colour_0", b"\\<"), ("fg_high_colour_1", b"\\<1"),
    ("fg_high_colour_2", b"\\<12"), ("fg_greyscale_colour_0", b"\\{"), ("fg_greyscale_colour_1", b"\\{1"),
    ("fg_true_colour_0", b"\\("), ("fg_true_colour_1", b"\\(1"), ("fg_true_colour_2", b"\\(12"),
    ("fg_true_colour_3", b"\\(123"), ("fg_true_colour_4", b"\\(1234"), ("fg_true_colour_5", b"\\(12345"),
    ("bg_low_colour", b"\\]"), ("bg_high_colour_0", b"\\>"), ("bg_high_colour_1", b"\\>1"),
    ("bg_high_colour_2", b"\\>12"), ("bg_greyscale_colour_0", b"\\}"), ("bg_greyscale_colour_1", b"\\}1"),
    ("bg_true_colour_0", b"\\)"), ("bg_true_colour_1", b"\\)1"), ("bg_true_colour_2", b"\\)12"),
    ("bg_true_colour_3", b"\\)123"), ("bg_true_colour_4", b"\\)1234"), ("bg_true_colour_5", b"\\)12345"),
    ("utf8_0", b"\\U"), ("utf8_1", b"\\U1"), ("utf8_2", b"\\U12"), ("utf8_3", b"\\U123"),
]
assert len(STATE_PREFIX) == 38

# contexts put in front of the prefix: a fresh decoder; one with every attribute non-default, a non-default
# character set and scratch registers left dirty by earlier directives; one right after a UTF-8 element
# (character-set fallback, dirty glyph storage)
CONTEXTS = [b"", b"\\i>\\p-\\u+\\[2\\]3\\c0\\<345\\(a1b2c3\\{17\\C077q", b"\\)0a0b0c\\cA\\U263A"]
# distinguishing suffixes: enough well-formed bytes to finish any directive, show the scratch registers
# (digits/hex that are folded into the value) and reveal the state the decoder is left in
SUFFIXES = [b"", b"7", b"9aB3c5\\[4\\i<Zz", b"\\x%5\\"]
