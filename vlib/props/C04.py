from .. import screengen as sg
from ..core import Case
from .common import PropBase
from .C03 import CFGS


class Prop(PropBase):
    ID = "C04"
    LEAN_MODULES = ["Tpp.Props.C04"]
    REQUIRED = ["Tpp.Props.C04." + n for n in ("C04_same_canvas_silent", "C04_ops_exact", "C04_each_once", "C04_wire_exact",
                                                "C04_wire_cells_any_size", "drawOps_elements")] + ["Tpp.draw_loop"]
    RULE = ("the C03 frame sequences (random edits, reverts, repeated draws, size changes) and every single-cell edit of a "
            "4x3 canvas; for every draw the oracle counts the glyphs Ref.VT receives and compares their positions, order "
            "and cells with the cells whose element differs (library inequality) from the previously drawn frame, or from "
            "blanks after a size change; a repeated draw must write zero bytes. Non-trivial: at least two draws; distinct "
            "by line text.")
    ASSUMPTIONS = ["frame protocol as in C03", "terminal = Tpp.Ref.VT"]

    @staticmethod
    def cases(tier, rng):
        cs = []
        for line, cfgs in sg.single_cell_edits(4, 3, CFGS):
            cs.append(Case(line, sweep="single-cell-edits-4x3", cfgs=cfgs[:1]))
        n = 1200 if tier == "quick" else 25000
        for i in range(n):
            nf = rng.choice([1, 2, 3, 4, 6]) if tier == "quick" else rng.choice([2, 4, 8, 16, 40])
            line = sg.frames(rng, nf)
            cs.append(Case(line, tag="frames", nontrivial=line.count(" dr") >= 2, cfgs=[rng.choice(CFGS) for _ in range(2)]))
        for _ in range(150 if tier == "quick" else 3000):
            cs.append(Case(sg.frames(rng, rng.choice([1, 2, 3]), mismatch=True), tag="frames-size-mismatch", oracle=False))
        for line in sg.padded_rows(rng, 300 if tier == "quick" else 6000):
            cs.append(Case(line, tag="padded-rows", cfgs=[rng.choice(CFGS) for _ in range(2)]))
        for line in sg.reshapes(rng, 300 if tier == "quick" else 6000):
            cs.append(Case(line, tag="reshapes-same-sequence", cfgs=[rng.choice(CFGS)]))
        for line in sg.neighbour_after_move(rng, 300 if tier == "quick" else 6000):
            cs.append(Case(line, tag="neighbour-after-move", cfgs=[rng.choice(CFGS)]))
        for line in sg.kept_references(rng, 300 if tier == "quick" else 6000):
            cs.append(Case(line, tag="kept-references", cfgs=[rng.choice(CFGS)]))
        for line in sg.large_canvas_replaced(rng, 12 if tier == "quick" else 120):
            cs.append(Case(line, tag="large-canvas-replaced", cfgs=[rng.choice(CFGS)]))
        for line in sg.wide_runs(rng, tier):
            cs.append(Case(line, sweep="wide-runs", cfgs=[rng.choice(CFGS)]))
        for line, cf in sg.large_canvas_edits(rng, CFGS, tier):
            cs.append(Case(line, sweep="large-canvas-edits", cfgs=cf))
        for line, cf in sg.glyph_byte_edits(CFGS_NOIMM if "CFGS_NOIMM" in globals() else CFGS):
            cs.append(Case(line, sweep="glyph-byte-edits", cfgs=cf))
        return cs
