from ..core import Case
from . import input_gen as G


def split_runs(data):
    """every two-chunk split (the empty first / last chunk included), byte-wise, and whole (last)"""
    runs = [G.hx(data[:i]) + "," + G.hx(data[i:]) for i in range(len(data) + 1)]
    runs.append(",".join(G.hx(data[i:i + 1]) for i in range(len(data))) if data else "-")
    runs.append(G.hx(data))
    return " / ".join(runs)


class Prop(G.InputPropBase):
    ID = "C06"
    LEAN_MODULES = ["Tpp.Props.C06"]
    REQUIRED = ["Tpp.Props.C06." + n for n in (
        "C06_chunking", "C06_any_two_partitions", "C06_empty_delivery", "deliverAll_flatten",
        "C06_window_never_stalls", "C06_no_read_posted")] + ["Tpp.windowed_run", "Tpp.windowed_deliver"]
    RULE = ("runs marked ! are delivered by a channel that already holds all deliveries and completes every read synchronously inside async_read, so that the re-arming client's callbacks nest; one line = several runs, each a partition of the SAME byte stream delivered to a fresh terminal whose client "
            "re-arms async_read from inside the callback; the last run is the one-chunk delivery.  Exhaustive: every "
            "representative item (all kinds, introducers, parameter shapes; thorough: every single-item case of C05) "
            "split at every position incl. the empty first/last delivery, byte-wise and whole; every (canonical prefix, "
            "byte) transition delivered as prefix | byte | suffix.  Random: well-formed item streams, malformed streams, "
            "UTF-8 text and mixtures under two random partitions (empty deliveries included), byte-wise and whole; single "
            "deliveries completing 1023..5000 (thorough 70000) tokens; one terminal receiving 6-60 short deliveries drawn with "
            "repeats from a small vocabulary of near-identical byte strings (NUL padding, one byte more or less).  "
            "Non-trivial: at least two runs that differ as partitions; distinct by line text.  The oracle compares the "
            "REAL token concatenation of every run with the real one-chunk run and requires one callback per delivery.")
    ASSUMPTIONS = ["a delivery is one invocation of the function the terminal passed to channel.async_read"]

    @staticmethod
    def cases(tier, rng):
        cs = []
        reps = []
        for intro in G.INTROS:
            for k in range(8):
                for rep, mods in ((None, None), (5, None), (12, 3), (None, 15)):
                    reps.append([("k", intro, k, rep, mods)])
            for k in range(12):
                reps.append([("s", intro, k)])
            for k in range(18):
                for mods in (None, 5):
                    reps.append([("p", intro, k, mods)])
            for b in range(7):
                reps.append([("m", intro, b, 10, 20)])
            reps.append([("q", intro, "q", [1, None, 1049], 0x68)])
            reps.append([("q", intro, "n", None, 0x6D)])
            reps.append([("q", intro, "g", [200], 0x7E)])
        for f in G.ENTER:
            reps.append([("e", f)])
            reps.append([("e", f), ("c", 0x61)])
        reps.append([("e", "cr"), ("e", "crlf")])
        reps.append([("e", "lf"), ("e", "lfcr")])
        reps.append([("c", 0x00), ("c", 0x7F)])
        if tier == "thorough":
            for intro in G.INTROS:
                for k in range(8):
                    for rep in (None, 0, 1, 7, 2**31 - 1):
                        for mods in [None] + list(range(16)):
                            reps.append([("k", intro, k, rep, mods)])
                for k in range(18):
                    for mods in [None] + list(range(16)):
                        reps.append([("p", intro, k, mods)])
        for items in reps:
            data = b"".join(G.item_bytes(i) for i in items) + b"x"
            cs.append(Case("I " + split_runs(data), sweep="every-split", cfgs=["C06"], tag="every-split"))
            cs.append(Case("I " + split_runs(G.DIRTY + data), sweep="every-split-dirty", cfgs=["C06"], tag="every-split"))
            cs.append(Case("J " + split_runs(data), sweep="every-split-multiplexed", cfgs=["C06"], tag="every-split"))
        # deliveries interleaved with output-side operations on the same terminal (resize notification, drawing):
        # the partition is still a partition of the same stream
        OPS = ["@sz.10.5", "@sz.80.24", "@we", "@mv.1.1", "@er", "@hc"]
        for items in reps[::3]:
            data = b"".join(G.item_bytes(i) for i in items) + b"x"
            runs = []
            for cut in range(1, len(data)):
                runs.append("%s,%s,%s" % (G.hx(data[:cut]), OPS[(cut + len(data)) % len(OPS)], G.hx(data[cut:])))
            runs.append(G.hx(data))
            cs.append(Case("I " + " / ".join(runs), sweep="every-split-with-output-ops", cfgs=["C06"], tag="split-with-ops"))
        # several items of ONE kind in a row (pointer-motion reports, the same key, the same report), delivered all at once
        # and cut up, on terminals with each combination of the mouse capability flags: folding "redundant" events
        # of one delivery changes the token stream with the partition
        for btn in range(7):
            for k in (2, 3, 5):
                for intro in G.INTROS:
                    items = [("m", intro, btn, 10 + 3 * j, 20 + j) for j in range(k)] + [("c", 0x78)]
                    data = b"".join(G.item_bytes(it) for it in items)
                    runs = ["@bh.%d,%s" % (bits, G.hx(data)) for bits in (0, 1, 2, 3)] + [G.chunkings(rng, data, "bytes"), "@bh.2," + G.chunkings(rng, data, "random")]
                    cs.append(Case("I " + " / ".join(runs), sweep="runs-of-one-kind", cfgs=["C06"], tag="runs-of-one-kind"))
        for it in (("k", "7", 0, None, None), ("k", "8", 3, 2, 5), ("p", "7", 6, None), ("s", "7", 1), ("e", "cr"), ("c", 0x61), ("q", "7", "n", [200], 0x7E)):
            for k in (2, 3, 5):
                items = [it] * k + [("c", 0x78)]
                if not all(G.ok_pair(a, b) for a, b in zip(items, items[1:])):
                    continue
                data = b"".join(G.item_bytes(i) for i in items)
                runs = ["@bh.%d,%s" % (bits, G.hx(data)) for bits in (0, 3)] + [G.chunkings(rng, data, "bytes"), "@rw.3," + G.chunkings(rng, data, "random")]
                cs.append(Case("I " + " / ".join(runs), sweep="runs-of-one-kind", cfgs=["C06"], tag="runs-of-one-kind"))
        # ONE control sequence with hundreds of parameter bytes, whole and cut late (after byte 200, 255 … 262, 300, 511 … 514)
        # and byte by byte: a length limit that is only looked at between deliveries
        for nparam in (255, 256, 257, 258, 300, 520, 1100):
            for intro in (b"\x1b[", b"\x9b", b"\x1b[?"):
                body = (b"1234567890;" * (nparam // 11 + 1))[:nparam]
                data = intro + body + b"m" + b"\x1b[Ax"
                runs = [G.hx(data)]
                for cut in (200, 255, 256, 257, 258, 259, 260, 261, 262, 300, 511, 512, 513, 514, len(data) - 5):
                    if 0 < cut < len(data):
                        runs.append(G.hx(data[:cut]) + "," + G.hx(data[cut:]))
                if nparam <= 300:
                    runs.append(G.chunkings(rng, data, "bytes"))
                runs.append(G.hx(data))
                cs.append(Case("I " + " / ".join(runs), sweep="long-sequence-cut-late", cfgs=["C06"], tag="long-sequence"))
        # wall-clock time passing between two deliveries that cut an item (a slow link, a user who pauses after ESC): the
        # decoder has no notion of time
        k = 0
        for state, pre in G.PREFIXES:
            if state == "idle" or (tier == "quick" and k >= 14):
                continue
            k += 1
            suffix = b"[1;2Ax" if pre.endswith(b"\x1b") else b"1;2~x"
            whole = pre + suffix
            ms = 130 if tier == "quick" else 600
            cs.append(Case("I %s,@sl.%d,%s / %s" % (G.hx(pre), ms, G.hx(suffix), G.hx(whole)), sweep="pause-inside-an-item", cfgs=["C06"], tag="pause"))
        for state, pre in G.PREFIXES:
            for b in range(256):
                suffix = b"1;2~x"
                whole = pre + bytes([b]) + suffix
                cs.append(Case("I %s,%s,%s / %s" % (G.hx(pre), G.hx(bytes([b])), G.hx(suffix), G.hx(whole)),
                               sweep="transition-split-" + state, cfgs=["C06"], tag="transition-split"))
        for i in range(2000 if tier == "quick" else 50000):
            kind = i % 4
            if kind == 0:
                data = b"".join(G.item_bytes(it) for it in G.random_items(rng, rng.randrange(1, 30)))
                tag = "random:items"
            elif kind == 1:
                data = G.malformed(rng)
                tag = "random:malformed"
            elif kind == 2:
                data = G.utf8_text(rng) + G.malformed(rng, 16) + G.utf8_text(rng)
                tag = "random:utf8+malformed"
            else:
                data = b"".join(rng.choice([G.item_bytes(G.random_item(rng)), G.malformed(rng, 12)]) for _ in range(rng.randrange(1, 8)))
                tag = "random:mixed"
            runs = [G.chunkings(rng, data, "random"), G.with_setup(rng, G.chunkings(rng, data, "random")), G.chunkings(rng, data, "bytes"),
                    G.with_setup(rng, G.chunkings(rng, data, "whole")),
                    "!" + G.chunkings(rng, data, "random"),     # the channel already holds the deliveries: reads complete synchronously
                    "!!" + G.chunkings(rng, data, "random"),    # … and the client re-arms before it looks at its tokens
                    G.chunkings(rng, data, "whole")]
            if 0 < len(data) <= 80:
                runs.insert(3, "!" + G.chunkings(rng, data, "bytes"))
            # every third case keeps ALL the runs alive at once on one thread and takes their deliveries in turn (kind `J`: a
            # server loop multiplexing several connections): a decoder must not share scratch with another decoder
            cs.append(Case(("J " if i % 3 == 0 else "I ") + " / ".join(runs), cfgs=["C06"], tag=tag + (":multiplexed" if i % 3 == 0 else "")))
        # single deliveries that complete very many tokens (a paste): 1 callback per delivery however many tokens
        big = [b"a" * n for n in (1023, 1024, 1025, 2048, 5000)]
        big.append((b"\x1b[A" + b"b" + b"\r\n") * 700)
        big.append(b"".join(G.item_bytes(it) for it in G.random_items(rng, 1500)))
        if tier == "thorough":
            big += [b"a" * 70000, b"".join(G.item_bytes(it) for it in G.random_items(rng, 20000))]
        for data in big:
            mid = len(data) // 2
            runs = [G.hx(data), G.hx(data[:mid]) + "," + G.hx(data[mid:]), G.hx(data[:1]) + "," + G.hx(data[1:]),
                    G.hx(data[:-1]) + ",-," + G.hx(data[-1:]), G.chunkings(rng, data, "random")]
            if len(data) <= 1100:
                runs.append(G.chunkings(rng, data, "bytes"))
            cs.append(Case("I " + " / ".join(runs), cfgs=["C06"], sweep="large-deliveries", tag="large-delivery"))
        # the same terminal receives MANY short deliveries drawn (with repeats) from a small vocabulary of byte strings
        # that differ in little (NUL padding, one byte more or less): what a per-terminal cache keyed on the delivery confuses
        for i in range(400 if tier == "quick" else 8000):
            base = rng.choice([b"\x1b[A", b"a", b"\x1bOP", b"\r", b"\x1b[5~", b"\x9bB", b"\x00", b"ab", b"\x1b[1;5C"])
            vocab = {base, b"\x00" + base, b"\x00\x00" + base, base + b"\x00", base + base[-1:], base[:-1] or b"\x00",
                     b"\x00" * rng.randrange(1, 6), rng.choice([b"a", b"\x1b", b"[", b"A", b"\n"])}
            vocab = sorted(vocab)
            picks = [rng.choice(vocab) for _ in range(rng.choice([6, 12, 25, 60]))]
            data = b"".join(picks)
            cs.append(Case("I " + ",".join(G.hx(c) for c in picks) + " / " + G.hx(data), cfgs=["C06"], tag="repeated-short-deliveries"))
        # deliveries that carry nothing at all
        cs.append(Case("I -,-,- / -", cfgs=["C06"], sweep="empty-deliveries", tag="empty"))
        cs.append(Case("I -,1b,-,5b,-,41,- / 1b5b41", cfgs=["C06"], sweep="empty-deliveries", tag="empty"))
        return cs
