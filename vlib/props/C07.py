import itertools

from ..core import Case
from . import input_gen as G

# byte classes of the decoder: ESC CR LF NUL CSI(8-bit) SS3(8-bit) digit ';' 'M' '?' '['
ALPHABET = [0x1B, 0x0D, 0x0A, 0x00, 0x9B, 0x8F, 0x31, 0x3B, 0x4D, 0x3F, 0x5B]
LETTERS = [b"MMMM", b"AAAA", b"OOOO", b"Mabc", b"ZzAa", b"HIZM", b"mmmm", b"PQRS"]
SUFFIX_ITEMS = [
    [("c", 0x61), ("k", "7", 0, 5, 1), ("s", "7", 8), ("e", "crlf"), ("m", "7", 0, 0, 1)],
    [("k", "8", 3, None, None), ("c", 0x78)],
    [("p", "m", 17, 15), ("q", "7", "q", [25], 0x68)],
    [("e", "cr"), ("c", 0x41), ("s", "8", 0)],
    [("m", "8", 6, 222, 222), ("e", "lfcr"), ("k", "m", 7, None, 4)],
    [("c", 0x00), ("c", 0x4D), ("q", "8", "n", None, 0x6D)],
]
SUFFIXES = [b"".join(G.item_bytes(i) for i in items) for items in SUFFIX_ITEMS]


def pair(garbage, k):
    ls = LETTERS[k % len(LETTERS)]
    sfx = SUFFIXES[k % len(SUFFIXES)]
    return "%s,%s,%s / %s" % (G.hx(garbage), G.hx(ls), G.hx(sfx), G.hx(sfx))


class Prop(G.InputPropBase):
    ID = "C07"
    LEAN_MODULES = ["Tpp.Props.C07", "Tpp.Props.C07Markup"]
    REQUIRED = ["Tpp.Props.C07." + n for n in (
        "C07_input_resync", "C07_input_idle_is_initial", "C07_input_idle_is_initial_deliveries",
        "C07_input_recovers", "C07_input_arguments_nonempty", "C07_input_resync_three_insufficient")] + \
        ["Tpp.Props.C07Markup." + n for n in ("C07_markup_bound", "C07_markup_progress", "C07_markup_fuel",
                                               "C07_handler_table", "C07_handler_state_index", "C07_handler_index")]
    LEVEL = "proof"
    RULE = ("MARKUP HALF: all strings over an 11-class byte alphabet up to length 4 (quick) / 6 (thorough), every decoder "
            "state x hostile tails, random text to 4096 bytes, runs to 10^5 characters through encode/_ets/_ete; the oracle "
            "checks element count <= input length.  INPUT-DECODER HALF.  Hostile input: every byte string over the 11 byte classes of the decoder (ESC CR LF NUL "
            "0x9B 0x8F digit ; M ? [) up to length 4 (quick) / 6 (thorough), random strings over all bytes and over a "
            "control-heavy alphabet up to length 4096, digit runs up to 10^5, truncated well-formed items; each used as "
            "a garbage prefix, followed by four letters (8 letter quadruples incl. MMMM) and a well-formed suffix, and "
            "the same suffix on a fresh terminal (run pairs, 8 pairs per line for the exhaustive part).  Everything "
            "runs under ASan+UBSan with -fno-sanitize-recover; an abort of the executor is a violation with the line "
            "as replay.  Non-trivial: the garbage is non-empty; distinct by line text.  The oracle compares the REAL "
            "tokens of the suffix after garbage+letters with the real tokens of the suffix alone.")
    ASSUMPTIONS = [
        "memory safety of the compiled C++ is supported by sanitised execution of every stream, not proved (level: proof for "
        "resynchronisation, idle = initial and the argument guard; partial for undefined behaviour)",
        "the attribute-markup decoder half (element bound, handler-table index, termination) is in Tpp.Props.C07Markup",
    ]

    @classmethod
    def signature(cls, case, verdict):
        if case.line[:1] in ("E", "e", "s"):
            return "C07 markup:" + (case.sweep or case.tag or case.line[:40])
        return super().signature(case, verdict)

    @staticmethod
    def cases(tier, rng):
        from . import c07_markup_cases
        cs = list(c07_markup_cases.cases(tier, rng))
        maxlen = 4 if tier == "quick" else 6
        k = 0
        group = []
        for n in range(1, maxlen + 1):
            for tup in itertools.product(ALPHABET, repeat=n):
                group.append(pair(bytes(tup), k))
                k += 1
                if len(group) == 8:
                    cs.append(Case("I " + " / ".join(group), sweep="hostile-classes", cfgs=["C07"], tag="hostile-classes"))
                    group = []
        if group:
            cs.append(Case("I " + " / ".join(group), sweep="hostile-classes", cfgs=["C07"], tag="hostile-classes"))
        if tier == "quick":
            for _ in range(4000):
                g = bytes(rng.choice(ALPHABET) for _ in range(rng.randrange(5, 9)))
                cs.append(Case("I " + pair(g, rng.randrange(1000)), cfgs=["C07"], tag="hostile-classes-sampled"))
        # every canonical prefix (all 8 control states, varied scratch) + every byte as garbage
        for state, pre in G.PREFIXES:
            for b in range(256):
                cs.append(Case("I " + pair(pre + bytes([b]), b), sweep="resync-from-" + state, cfgs=["C07"], tag="prefix+byte"))
        n_random = 600 if tier == "quick" else 10000
        for i in range(n_random):
            kind = i % 3
            if kind == 0:
                g = bytes(rng.randrange(256) for _ in range(rng.choice([1, 2, 3, 8, 64, 512, 4096])))
                tag = "random-bytes"
            elif kind == 1:
                g = b"".join(G.malformed(rng) for _ in range(rng.randrange(1, 20)))
                tag = "malformed"
            else:
                alpha = b"\x1b\x1b[[OM;;?>!~A\r\n\x00\x9b\x8f0123456789\x80\xff "
                g = bytes(rng.choice(alpha) for _ in range(rng.choice([5, 17, 100, 1000, 4096])))
                tag = "control-heavy"
            line = "I " + pair(g, rng.randrange(1000))
            if i % 2:
                # the same garbage delivered in random chunks
                sfx = SUFFIXES[i % len(SUFFIXES)]
                chunks = G.chunkings(rng, g, "random")
                if i % 4 == 1:
                    chunks = G.with_ops(rng, chunks)     # output-side operations between the deliveries
                elif i % 8 == 3:
                    chunks = rng.choice(["!", "!!"]) + chunks     # reads that complete synchronously; the client re-arms first
                line = "I %s,%s,%s / %s" % (chunks, G.hx(LETTERS[i % 8]), G.hx(sfx), G.hx(sfx))
            cs.append(Case(line, cfgs=["C07"], tag=tag))
        for n in ([10, 100, 1000, 10000, 100000] if tier == "quick" else [10, 100, 1000, 10000, 50000, 100000, 100000]):
            for intro in (b"\x1b[", b"\x9b", b"\x1bO", b"\x1b[1;", b"\x1b[?"):
                for end in (b"", b"~", b"A", b";", b"M"):
                    g = intro + bytes(rng.choice(b"0123456789") for _ in range(n)) + end
                    cs.append(Case("I " + pair(g, n), cfgs=["C07"], sweep="digit-runs", tag="digit-run"))
        # resynchronisation after MANY well-formed items of one kind and a dangling prefix (a counter that wraps at the
        # 86th / 171st / 256th mouse report, key or line ending)
        reps = [G.item_bytes(("m", "7", 0, 10, 20)), G.item_bytes(("m", "8", 3, 0, 222)), G.item_bytes(("k", "7", 0, 5, 1)), b"\r\n", b"\x1b[5~"]
        k = 0
        for rep in reps:
            for n in (84, 85, 86, 170, 171, 255, 256, 257):
                for dangling in (b"\x1b[", b"\x1b[M", b"\x1b[Mab", b"\x1b", b""):
                    cs.append(Case("I " + pair(rep * n + dangling, k), sweep="resync-after-n-items", cfgs=["C07"], tag="resync-after-n-items"))
                    k += 1
        cs += G.numeric_sweep("C07")
        cs += G.parameter_shape_sweep(tier, "C07")
        return cs
