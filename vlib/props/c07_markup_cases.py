"""Markup half of C07: hostile text for the attribute-markup decoder (encode, _ets, _ete).

`cases(tier, rng)` returns Case lists for a C07 property module to append to its own.  Every case is run
on the real library under ASan+UBSan (a sanitizer abort is a violation with the input as replay), compared
with the model, and judged by the markup oracle: element count <= input length (`FAIL C07 ...`), and plain
text decodes to itself.

Streams
* all strings over an 11-class byte alphabet up to length 4 (quick) / 6 (thorough, ~1.9 M);
* from each of the 38 decoder states (canonical prefix): all tails over a 20-class alphabet up to length
  2 (quick) / 3 (thorough);
* random strings to length 4096 in three styles (uniform bytes, markup-heavy, markup + bytes >= 0x80);
* long runs: digits after \\C \\{ \\< (to 10^5 in thorough), hex after \\U \\(, backslashes, `\\c%`, `\\x`.
"""
import itertools

from ..core import Case
from . import markup_gen as G

# one representative per byte class of the decoder
ALPHA11 = [0x5C, 0x43, 0x63, 0x55, 0x28, 0x7B, 0x25, 0x35, 0x66, 0xFF, 0x78]
ALPHA20 = [0x5C, 0x43, 0x63, 0x55, 0x28, 0x29, 0x7B, 0x3C, 0x5B, 0x25, 0x30, 0x39, 0x61, 0x46, 0x2B, 0x3E, 0x78, 0x00, 0x80, 0xFF]
MARKUP_BYTES = b"\\\\\\\\CcipuxU[]<>{}()%+-=0123456789abcdefABCDEF" + bytes([0, 0x7F, 0x80, 0x9B, 0xFF, 0x2F, 0x3A, 0x40, 0x47, 0x60, 0x67])


def _case(kind, data, **kw):
    return Case("%s %s" % (kind, G.hx(data)), **kw)


def random_text(rng, n):
    style = rng.randrange(3)
    if style == 0:
        return bytes(rng.randrange(256) for _ in range(n))
    if style == 1:
        return bytes(rng.choice(MARKUP_BYTES) for _ in range(n))
    return bytes(rng.choice(MARKUP_BYTES) if rng.random() < 0.7 else rng.randrange(128, 256) for _ in range(n))


def cases(tier, rng):
    thorough = tier == "thorough"
    cs = []
    # ---- exhaustive over byte classes
    maxlen = 6 if thorough else 4
    for n in range(0, maxlen + 1):
        for t in itertools.product(ALPHA11, repeat=n):
            cs.append(_case("E", bytes(t), sweep="markup-hostile-11^<=%d" % maxlen, nontrivial=n > 0))
    for n in range(1, 4):
        for t in itertools.product(ALPHA11, repeat=n):
            cs.append(_case("e", bytes(t), sweep="markup-hostile-ete"))
            cs.append(_case("s", bytes(t), sweep="markup-hostile-ets"))
    # ---- from every decoder state
    taillen = 3 if thorough else 2
    for name, prefix in G.STATE_PREFIX:
        for n in range(0, taillen + 1):
            for t in itertools.product(ALPHA20, repeat=n):
                cs.append(_case("E", prefix + bytes(t), sweep="markup-state-x-hostile-tail", nontrivial=bool(prefix) or n > 0))
    # ---- random, long
    for i in range(600 if thorough else 80):
        n = rng.choice([7, 33, 200, 1000, 4096])
        data = random_text(rng, n)
        if rng.random() < 0.5:
            data += rng.choice(G.STATE_PREFIX[1:])[1]
        cs.append(_case("E" if i % 4 else ("s" if i % 8 else "e"), data, tag="markup-random-long"))
    # ---- runs
    big = 100000 if thorough else 10000
    runs = [b"\\C" + b"9" * big, b"\\{" + b"9" * big, b"\\<" + b"7" * big, b"\\U" + b"f" * big, b"\\(" + b"F" * big,
            b"\\" * big, b"\\" * (big + 1), b"\\c%" * (big // 3), b"\\x" * (big // 2), b"\\[" * (big // 2),
            b"\\i" * (big // 2) + b"\\", bytes([0xFF]) * big, b"\\C25" * (big // 4), b"\\U12" * (big // 4)]
    for data in runs:
        cs.append(_case("E", data, sweep="markup-long-runs"))
    cs.append(_case("s", runs[0], sweep="markup-long-runs"))
    cs.append(_case("e", runs[5], sweep="markup-long-runs"))
    return cs
