"""Writes MANIFEST.json from the table below (kept in one place so it stays valid)."""
import json
import os
import sys

HERE = os.path.dirname(os.path.dirname(os.path.abspath(__file__)))

CHECKS = {
    "C18": dict(
        text="All six statements of the property are Lean theorems over the designator tables regenerated from the headers on every run, decided by kernel evaluation over the complete finite domain (18 sets, 256 one-byte and 256 %-extended candidates) against an independent transcription of the xterm/VT SCS table. The lookup/encode logic of the model is tied to the real constexpr functions exhaustively on both sides.",
        note="Lean kernel; axioms propext only; Ref.Designators (the standard table) is hand-transcribed; extractor and executor are unverified C++; both sides are exhaustive so there is no sampling gap inside the property's domain.",
        technique="Lean 4 theorems by decide +kernel over regenerated tables; exhaustive differential tie",
        ref="§5 C18"),
    "C19": dict(
        text="Index formula, range, injectivity, surjectivity onto 16..231, component round trip and the greyscale map are Lean theorems over the regenerated offset/coefficients in the C++ arithmetic (int evaluation, byte truncation), by kernel evaluation over all 216 triples and 24 shades; the SGR parameter text is a theorem about the encoder model. The arithmetic and the emitted bytes are tied to the real code exhaustively.",
        note="Lean kernel; no axioms beyond propext; the model of int-promotion/truncation is hand-written and tied by exhaustive execution of all 256 raw values and all triples; palette layout of xterm assumed as the standard.",
        technique="Lean 4 theorems by decide +kernel over regenerated constants; exhaustive differential tie",
        ref="§5 C19"),
}

CHECKS["C16"] = dict(
    text="Cell count, addressing (cell (x,y) = element y*w+x of begin()..end(), and back), independence of assignments, the row-major region enumeration (membership, no duplicates, order, elements passed) and the resize law (single step and arbitrary chains, zero sizes included) are Lean theorems about a loop-by-loop transcription of canvas.cpp / for_each_in_region; the transcription is tied to the real canvas by exhaustive (old,new) size pairs with pairwise distinct contents, all sub-rectangles of a 5x4 canvas and random chains, and an independent oracle (abstract coordinate map) judges the real answers.",
    note="Lean kernel; axioms propext, Classical.choice, Quot.sound; model hand-written (List Element grid, Int coordinates, no int32 overflow: w*h < 2^31 assumed); out-of-range access (UB in C++) is outside the property and guarded in the harness; ASan/UBSan abort of the executor counts as a violation.",
    technique="Lean 4 theorems (induction over region/resize folds) + exhaustive/random differential tie under ASan",
    ref="§5 C16")

NOT_YET = {}


def main():
    props = [json.loads(l) for l in open(os.path.join(HERE, "properties.jsonl"))]
    ids = [p["id"] for p in props]
    checks = []
    for pid in ids:
        if pid not in CHECKS:
            continue
        c = CHECKS[pid]
        checks.append({
            "property_id": pid,
            "quick_cmd": "./check %s --tier quick" % pid,
            "thorough_cmd": "./check %s --tier thorough" % pid,
            "evidence_file": "evidence/%s.json" % pid,
            "replay_cmd_template": "./check %s --replay {path}" % pid,
            "engine": "lean-proof+correspondence",
            "level_claimed": {"category": c.get("category", "proof"), "text": c["text"], "design_ref": "DESIGN.md " + c["ref"]},
            "level_note": c["note"],
            "technique": c["technique"],
        })
    na = []
    for pid in ids:
        if pid not in CHECKS:
            na.append({"property_id": pid, "reason": NOT_YET.get(pid, "check under construction in this session: model/theorems/tie not yet committed; not claimed until they are (the technique applies, see DESIGN.md §5)")})
    man = {
        "version": 1,
        "setup_cmd": "./check --setup",
        "hooks": {
            "guard": "TERMINALPP_VERIF",
            "enable": "harness and library objects are compiled with -DTERMINALPP_VERIF by vlib/build.py; no hook is currently needed in /repo (all observation goes through public extension points)",
            "baseline_off_cmd": "./baseline_off.sh",
            "source_commits": [],
            "add_only": True,
        },
        "engines": [
            {"name": "lean-proof+correspondence", "path": "lean/ (model, Ref, theorems, driver), harness/ (extractor, executor), vlib/ (orchestrator)",
             "serves_properties": [c["property_id"] for c in checks],
             "kind_free_text": "Lean 4 theorems about a hand-written model whose data is regenerated from the headers and whose logic is run side by side with the real library (ASan+UBSan) on exhaustive sweeps and seeded random histories; property oracle (Tpp.Ref) evaluated on the real outputs"},
        ],
        "checks": checks,
        "not_applicable": na,
        "notes": "See DESIGN.md. Every check: regenerates Consts.lean from /repo/include, rebuilds the library from /repo/src with sanitizers, rebuilds the property's Lean module, audits axioms and forbidden tokens, runs executor and Lean driver on the same lines, evaluates the property oracle on the real outputs, matches known_findings.json.",
    }
    with open(os.path.join(HERE, "MANIFEST.json"), "w") as fh:
        json.dump(man, fh, indent=1)
        fh.write("\n")


if __name__ == "__main__":
    main()
