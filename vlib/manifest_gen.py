"""Writes MANIFEST.json from the table below (kept in one place so it stays valid)."""
import json
import os
import sys

HERE = os.path.dirname(os.path.dirname(os.path.abspath(__file__)))

CHECKS = {
    "C18": dict(
        text="All six statements of the property are Lean theorems over the designator tables regenerated from the headers on every run, decided by kernel evaluation over the complete finite domain (18 sets, 256 one-byte and 256 %-extended candidates) against an independent transcription of the xterm/VT SCS table. The lookup/encode logic of the model is tied to the real constexpr functions exhaustively on both sides.",
        note="Lean kernel; axioms propext only; Ref.Designators (the standard table) is hand-transcribed; extractor and executor are unverified C++; both sides are exhaustive so there is no sampling gap inside the property's domain.",
        technique="Lean 4 theorems by decide +kernel over regenerated tables; exhaustive differential tie",
        ref="§5 C18"),
    "C19": dict(
        text="Index formula, range, injectivity, surjectivity onto 16..231, component round trip and the greyscale map are Lean theorems over the regenerated offset/coefficients in the C++ arithmetic (int evaluation, byte truncation), by kernel evaluation over all 216 triples and 24 shades; the SGR parameter text is a theorem about the encoder model. The arithmetic and the emitted bytes are tied to the real code exhaustively.",
        note="Lean kernel; no axioms beyond propext; the model of int-promotion/truncation is hand-written and tied by exhaustive execution of all 256 raw values and all triples; palette layout of xterm assumed as the standard.",
        technique="Lean 4 theorems by decide +kernel over regenerated constants; exhaustive differential tie",
        ref="§5 C19"),
}

CHECKS["C16"] = dict(
    text="Cell count, addressing (cell (x,y) = element y*w+x of begin()..end(), and back), independence of assignments, the row-major region enumeration (membership, no duplicates, order, elements passed) and the resize law (single step and arbitrary chains, zero sizes included) are Lean theorems about a loop-by-loop transcription of canvas.cpp / for_each_in_region; the transcription is tied to the real canvas by exhaustive (old,new) size pairs with pairwise distinct contents, all sub-rectangles of a 5x4 canvas and random chains, and an independent oracle (abstract coordinate map) judges the real answers.",
    note="Lean kernel; axioms propext, Classical.choice, Quot.sound; model hand-written (List Element grid, Int coordinates, no int32 overflow: w*h < 2^31 assumed); out-of-range access (UB in C++) is outside the property and guarded in the harness; ASan/UBSan abort of the executor counts as a violation.",
    technique="Lean 4 theorems (induction over region/resize folds) + exhaustive/random differential tie under ASan",
    ref="§5 C16")

CHECKS["C15"] = dict(
    text="For each of the 21 value types (glyph, character set, the four colour kinds and the variant, four effects, attribute, element, string, point, extent, rectangle, control sequence, key sequence, virtual key, mouse event) the comparison operators are transcribed as the C++ defines them (defaulted <=> = lexicographic in declaration order, variant index first; glyph's three hand-written operators over the explicit 3-byte storage) and Lean proves: == is an equivalence, < is a strict total order whose 'neither less' is ==, <=> agrees with both, and == implies equal hash trees; plus: two valid glyphs that print the same bytes in the same set are ==. Generic closure lemmas (lexicographic product, sum, list, pullback) carry the instances. Operators and hash folds are tied to the real ones on exhaustive lattices of pairs/triples incl. differing unused storage.",
    note="Lean kernel; axioms propext, Classical.choice, Quot.sound; boost::hash_combine/hash_range are not modelled: the model's hash tree (the sequence of values read) is folded by the executor with the real boost functions and compared with the real hash_value; laws hold for all storage contents, the storage-independence theorem needs well-formed UTF-8 glyphs (counterexample proved otherwise).",
    technique="Lean 4 theorems (generic lawful-comparison closure lemmas + glyph by hand); exhaustive lattice differential tie",
    ref="§5 C15")
CHECKS["C10"] = dict(
    text="parse_element/encode/_ete are modelled state by state (38 handler states, every arithmetic wart); Lean proves: every list of spellings (directives in any order/redundancy, any designator alias, either hex case; glyph literal, \\\\, \\Cnnn, \\Uxxxx) decodes to exactly what the documented language says it denotes; the canonical markup of every expressible element string decodes to that string (library equality); text without backslashes decodes to itself; \\U v yields the UTF-8 encoding of v for all v < 65536; reset and persistence laws; termination of the loop. Tied to the real decoder by exhaustive state x byte sweeps, all \\C, \\U, colour directive values, and random spellings judged by the Ref semantics.",
    note="Lean kernel; axioms propext, Quot.sound (Classical.choice in two corollaries); equality is the library's operator== (unused glyph storage is carried along by the decoder and never observed; proved as C10_storage_is_carried); Tpp.Ref.Markup is a hand transcription of the documented language.",
    technique="Lean 4 theorems (induction over spelling lists, per-state lemmas) + exhaustive state-byte differential tie",
    ref="§5 C10")

VTNOTE = 'Lean kernel; axioms propext, Classical.choice, Quot.sound; the terminal is Tpp.Ref.VT with the modelling decisions of DESIGN §4 (SCO save/restore of position only, G0=US-ASCII/UTF-8 off initially, ED/EL do not move the cursor, one cell per glyph); domain: graphic glyphs, constructible colours, positions inside the declared size, declared size = actual size; the library model (Tpp.Model.Terminal/Encoder) is hand-written and tied byte-for-byte and record-for-record to the real library on exhaustive sweeps and seeded random histories under ASan/UBSan; the oracle judges the REAL bytes on Ref.VT.'
CHECKS["C01"] = dict(
    text="The simulation theorem agree_run (belief/terminal agreement preserved by every in-domain operation, by induction over arbitrary histories) plus run_log: for every history of element/string writes interleaved with erases, cursor moves, save/restore, mode switches, titles and resizes, from a terminal in ANY unknown rendition and for both unicode_in_all_charsets values, the reference terminal's print log grows by exactly cellOf(e) for each requested element in order (text, character set, bold/faint, underline, blink, inverse, fg, bg), the terminal never meets a byte it cannot place, and every operation ends between control functions. Proved from per-function lemmas (CSI parameter rendering, SGR diff incl. the lemma that two different attributes always differ in an emitted parameter, SCS/UTF-8 switching, payload). A second theorem (C01_rendering_any_size / C01_rendering_readme, from agreeRend_run) proves the same rendering clause with NO assumption relating positions to sizes: no set_size at all (README use), a declared size that does not match the terminal, the terminal resized behind the library's back, cursor moves to any non-negative position from any (true or false) believed position. On the pinned tree the check found blink never emitted (fixed, see known_findings.json).",
    note=VTNOTE, technique="Lean 4 simulation proof (invariant by induction over histories) against a byte-level reference VT; exhaustive attribute/charset transition sweeps + random histories as tie", ref="§5 C01")
CHECKS["C02"] = dict(
    text="From agree_run: after ANY in-domain history (writes incl. into the last column, moves, save/restore, erases, resizes) a move to a position inside the declared size followed by a string that fits on the row lands glyph i at (x+i, y) in the reference terminal's log - for deferred-wrap, immediate-wrap and no-wrap terminals alike (the wrap mode is an unconstrained field of the terminal), for every terminal-side cursor the belief does not know. Includes the lemma that CHA/CUU/CUD/CUP from a known position land on the target and that the last column forgets the position in all three modes. On the pinned tree the check found the saved position surviving set_size (fixed).",
    note=VTNOTE, technique="Lean 4 simulation proof + cursor-addressing lemmas over Int/Nat coordinates; exhaustive (from,to) sweeps + random histories as tie", ref="§5 C02")
CHECKS["C08"] = dict(
    text="The property is the invariant itself: Agree s vt says every 'some' in terminal_state (last element -> rendition and charset, cursor, saved cursor, visibility, size) equals the reference terminal's state; agree_step proves it is preserved by each of the 16 operations and by resize events, agree_run lifts it to every prefix of every history for all sizes, wrap and erase behaviours and initial states; plus theorems that the record says unknown after the last column, a size change, and restoring a never-saved position, and that the last-column state really differs between the three wrap modes. The real record is read through a user manipulator after every operation and compared with Ref.VT.",
    note=VTNOTE, technique="Lean 4 invariant proof by induction over operation histories (refinement to reference VT); state record compared after every op as tie", ref="§5 C08")
CHECKS["C09"] = dict(
    text="For each of the six erase manipulators, after any history including none at all: the reference terminal's cells in the region the manipulator's name denotes become default-attribute blanks in all three erase behaviours (plain, background-colour-erase, current-rendition), no other cell of either buffer changes, cursor and pending-wrap flag are untouched, the rendition is default afterwards and the belief stays true, so later text is rendered exactly (C01 from the resulting state). On the pinned tree the check found erases on an unknown rendition sending no SGR 0 (fixed). Additionally (C09_erase_any_size / C09_erase_after_any_size) the same statement holds when only the rendition half of the belief is true: no set_size, a wrong set_size, a false belief about the cursor - the region is relative to where the terminal's cursor really is.",
    note=VTNOTE, technique="Lean 4 proof (ED/EL lemmas on the reference VT + simulation invariant); every erase x cursor x preceding-state sweep as tie", ref="§5 C09")
CHECKS["C11"] = dict(
    text="A specification-level record of the most recent request of each kind (visibility, buffer, mouse, title) is proved consistent with the reference terminal's DEC private modes 25/47/1000/1003 and title after every in-domain history interleaved with text/cursor/erase/resize operations, for all 16 capability combinations and unknown initial modes: supported modes follow the last request despite elision, unsupported modes and never-requested kinds keep the terminal's own value, nothing is sent without the capability, BEL/ST terminator by capability, disable mirrors enable. Additionally (C11_modes_any_size / C11_modes_readme, via rstep_modes) the same consistency holds with no assumption relating positions to sizes (README use without set_size, lying set_size, silent terminal resize, moves to any non-negative position).",
    note=VTNOTE, technique="Lean 4 proof: per-event mode-effect lemma + refinement to an abstract 'last requested' spec by induction; exhaustive capability x mode-sequence sweep as tie", ref="§5 C11")
CHECKS["C13"] = dict(
    text="When the record names the element last written or the attribute left by an erase (and by the simulation invariant the terminal really has that rendition and character set in effect), an element with the same attribute and charset is transmitted as its glyph bytes only (also inside strings, also after an erase); moving to the position the cursor is known - and by the invariant really is - at, and requesting the visibility already in effect, transmit nothing. A status query (DSR 5/6, primary DA) sent through the raw entry point terminal::write leaves the record untouched and still true of the terminal (C13_status_query, feed_statusQuery), so the clauses apply across it.",
    note=VTNOTE, technique="Lean 4 theorems on the encoder model lifted to the terminal by the simulation invariant; repeated-operation sweeps as tie", ref="§5 C13")

CHECKS["C17"] = dict(
    text="Lean proves: to_string(string(bytes)) = bytes for every byte list (all 256 values, embedded NUL); to_string distributes over concatenation; the output of terminal << string is proved equal to a list of control segments and payload segments whose payload part - every control segment removed - is exactly to_string of the string, for ANY glyph byte values (NUL, ESC, 0x80-0xFF), attributes, charsets and prior state, given zero-padded well-formed UTF-8 glyphs; and for graphic glyphs the reference terminal's own print log carries exactly to_string. Tied to the real string/to_string/terminal by all single bytes, all 65536 UTF-8 glyphs (thorough) and random strings/splits; the oracle re-parses the real wire as control functions interleaved with the expected glyph text. On the pinned tree the check found to_string dropping the UTF-8 glyph U+0000 (fixed). Construction side (this is the whole of class string): every constructor (char const* up to the terminating NUL whatever follows in memory, pointer+length, std::string, std::string+attribute - attributes never drop text, embedded NUL included -, fill, iterator pair, initializer list, _ts), += and + with elements and strings, both inserts, the three erases, swap and operator[] assignment are modelled as a register machine polymorphic in the element type; naturality (SeqOp.run_map) gives C17_program_text: after ANY program over the class the plain text of every register is what the same program yields on the sequences of glyph texts. The glyph/element constructors (byte+charset, char8_t arrays, char const*) are modelled and proved to yield a valid glyph whose text is the given well-formed character (C17_glyph_from_cstr, C17_glyph_from_array). Random programs on four registers and constructor sweeps are executed against the real class and judged by the text-level program.",
    note="Lean kernel; axioms propext, Classical.choice, Quot.sound; string = List Element (vector semantics assumed); Glyph.Valid excludes ill-formed UTF-8 storage, where writer and to_string genuinely differ (tie-only cases); control-function syntax in the oracle is ECMA-48 §5.4 CSI + SCS + ESC % F.",
    technique="Lean 4 theorems (induction over strings; segment refinement of the writer) + exhaustive glyph sweeps as tie",
    ref="§5 C17")

CHECKS["C14"] = dict(
    text="Model level (Lean): a channel is a byte sink; the stdout sink delivers the concatenation of all writes unchanged and in order for arbitrary content and sizes, the bytes a terminal produces do not depend on the sink, and equal the run output. The content of the property is runtime behaviour of the real stdout_channel: every check spawns child processes whose terminal is bound to terminalpp::stdout_channel, reads the pipe to EOF and compares byte for byte (NUL, >=0x80, writes of 0..64 KiB, 256 one-byte writes) with the capturing channel of the executor and with the model. Partial: the iostream layer and flushing at process exit are observed, not proved. On the pinned tree the check found the empty write() body (fixed). Large writes (70 KB - 1 MB) are additionally made on a full pipe while SIGUSR1 is delivered repeatedly to the blocked writer (write(2) returns short counts) and the parent reads slowly.",
    note="Lean kernel, no axioms beyond propext/Quot.sound; std::cout, the OS pipe and process-exit flushing are outside the model (stated limitation: level is proof for the sink model, differential execution for the runtime).",
    technique="Lean 4 theorems on a byte-sink model + child-process differential execution of the real stdout_channel",
    ref="§5 C14")

CHECKS["C03"] = dict(
    text="Frame protocol (terminal has the canvas's size; a size change is a resize event with ARBITRARY terminal-side contents/cursor/saved position/pending flag plus set_size). Lean proves by induction over the row-major cell loop (draw_loop) and over frame sequences: from the invariant (belief agrees with terminal, remembered frame = displayed grid) - or for a size-changing first frame from a fresh terminal object and ANY unknown terminal - after every draw every cell of the reference terminal's visible grid equals cellOf(canvas cell) (glyph text, charset, all attributes), for deferred-wrap and no-wrap terminals and all three erase behaviours; for immediate-wrap terminals under the exact exclusion 'the bottom-right cell is not transmitted'. The full statement is proved FALSE of the code on a concrete witness (1x1 immediate-wrap terminal scrolls) - partial, recorded as known finding. The oracle compares the whole grid with the canvas after every real draw.",
    note=VTNOTE + " C03 is claimed as *_partial* for wrap=immediate (known finding 'C03 immediate-wrap bottom-right'); the README-style use without declaring a size is outside the proved protocol (tie only).",
    technique="Lean 4 proof: loop invariant over the cell traversal + frame-sequence induction on the simulation invariant; proved counterexample for the excluded case; frame-sequence differential tie",
    ref="§5 C03")
CHECKS["C04"] = dict(
    text="Lean proves: drawing the canvas last drawn yields no operations and hence no bytes from any terminal state; the operation list of a draw is exactly an erase iff the size changed followed by move+element for the cells whose element differs (library inequality) from the previous frame or from blanks, in for_each_in_region order which is row-major without duplicates (C16 lemmas); and on the wire: the reference terminal's print log grows during the draw by exactly those cells - each once, in that order, at its own position, shown as the canvas element - on every kind of terminal. Additionally (C04_wire_cells_any_size, from the rendition-only simulation) with NO size assumption at all - no set_size, canvas larger or smaller than the terminal - the glyphs a draw transmits are exactly the changed cells' elements, each once, in row-major order, with exactly the requested look; frame generators include zero-area canvases between frames.",
    note=VTNOTE,
    technique="Lean 4 proof (definitional unfolding of the draw + loop lemma lifted through the simulation invariant); per-draw glyph count/position oracle on real bytes",
    ref="§5 C04")

CHECKS["C12"] = dict(
    text="Model level (Lean): for any family of objects whose steps touch only their own state, every schedule that interleaves their operation scripts gives each object exactly the outputs and final state of its solo run (induction over schedules); instantiated for the terminal encoder. That the code has this shape is (i) a regenerated proof obligation - the inventory of all static-storage objects in writable sections of the library built from the working tree (nm), each matched to its source declaration, must be const/constexpr (no_mutable_statics, decided by the kernel on every run; a new mutable static or cache breaks it and is named) - and (ii) execution: sets of 2-8 terminals/screens/one-shot objects alive at once, run round-robin and under seeded random interleavings (ASan+UBSan) and concurrently one thread per object (ThreadSanitizer); each object's bytes, tokens and state records must equal its solo run and the model. Partial for schedules: TSan explores, it does not prove data-race freedom. Object sets include twin sets: the SAME operation sequence on 2-4 distinct objects that differ only in configuration (or not at all), which is what an argument-keyed cache shared between objects confuses.",
    note="Lean kernel; axioms propext/Quot.sound; the statics matcher (vlib/statics.py: nm -f sysv + regex over the sources) is unverified tooling; thread schedules are whatever the OS produces in the TSan runs; the C++ memory model is outside the Lean model.",
    technique="Lean 4 interleaving theorem + regenerated static-storage inventory as proof obligation + interleaved/concurrent differential execution (ASan, TSan)",
    ref="§5 C12")

INNOTE = "Lean kernel; axioms propext, Classical.choice, Quot.sound; detail::parser and get_well_known_virtual_key are modelled state by state with every scratch member; argument_to_integer (strtoll clamped to int, which replaced atoi in fix 1071cf8) and isdigit are modelled, not verified, and cross-checked on the int boundary values every run; function-local tables in .cpp files are REGENERATED on every run (vlib/tables.py pastes the declaration text into a C++ printer) and proved equal to the model's tables, and are additionally tied by exhaustive sweeps; the header constants they use are regenerated; the specification side (Tpp.Ref.Input: items of the xterm/ECMA-48 input protocol, xterm modifier rule, designates) is hand-written from the protocol documents."
CHECKS["C05"] = dict(
    text="Lean proves, for an idle decoder with ARBITRARY scratch fields: any concatenation of well-formed input items (characters, the five Enter forms, CSI cursor/Home/End/Tab/BackTab keys with repeat counts and modifiers in 7- and 8-bit form with meta prefix, SS3 keys, keypad CSI n;m~, other CSI sequences with parameters and private markers, X10 mouse reports) under the CR/LF adjacency condition decodes to exactly one expected token per item, in order (key, modifiers per the xterm rule, repeat count, mouse button and zero-based position, original sequence); decoding of an item does not depend on what preceded it; the key/modifier/mouse tables agree with the protocol tables for all bytes. Tied by the exhaustive (prefix state x next byte x suffix) sweep, the key-space sweep incl. atoi boundary values, mouse grids and random item streams; the oracle compares real tokens with items.map expected. The four key tables and the mouse table the model uses are proved equal (TablesTie, kernel evaluation) to the tables regenerated on every run from the declaration text inside /repo/src/detail/*.cpp.",
    note=INNOTE, technique="Lean 4 proof (per-item lemmas from idle with arbitrary scratch, induction over item lists) + exhaustive transition/key-space differential tie", ref="§5 C05")
CHECKS["C06"] = dict(
    text="Lean proves for arbitrary bytes and any partition into deliveries (empty ones included): the concatenation of the token lists equals the tokens of the whole stream, the final decoder state is the same, and the number of read callbacks equals the number of deliveries; any two partitions of the same stream agree. The executor re-arms async_read from inside the callback like a real client and counts invocations; every representative item split at every position plus random partitions of well-formed, malformed and UTF-8 streams.",
    note=INNOTE, technique="Lean 4 proof (fold over append / flatten) + partition differential tie with callback counting", ref="§5 C06")
CHECKS["C07"] = dict(
    text="Lean proves: any four letters bring the input decoder from ANY state to idle (and three do not suffice - witness); two idle states with different scratch decode every stream and every delivery sequence identically (bisimulation), hence after garbage + 4 letters any suffix decodes as on a fresh terminal; every control sequence the decoder emits has at least one argument (the guard for arguments[0]); the markup decoder never yields more elements than input characters, consumes at least one character per element (termination), and never indexes the 38-entry handler table out of range. Termination of every model function is checked by Lean. 'Without undefined behaviour' on the compiled code is supported, not proved: every stream of C05/C06/C10 plus hostile streams (all strings over 11 byte classes up to length 4/6 for both decoders, random to 4096 bytes, digit runs to 10^5) runs under ASan+UBSan with no recovery; an abort is a violation with the input as replay. Partial for memory safety.",
    note=INNOTE + " Memory safety/UB freedom of the compiled C++ is outside the model (sanitised execution only).", technique="Lean 4 proof (resynchronisation, bisimulation, bounds) + sanitised hostile-input execution", ref="§5 C07")
CHECKS["C20"] = dict(
    text="The full statement (every abstract-key token is produced only by a control sequence that designates that key per the xterm tables - liberally ignoring extra parameters/markers - or by a line ending; a single ordinary idle byte is reported as that byte) is stated as a Prop and PROVED FALSE of the code on concrete witnesses: bytes 0x80-0x96 except 0x8F come out as cursor_up..f12 (static_cast<vk>). Proved instead (C20_partial): every abstract-key token has a designating sequence, is a line ending, or carries a raw byte from exactly that 22-byte set - for parameters of ANY size; and single ordinary bytes are reported as themselves, abstract exactly on the colliding set. The byte collision needs an API change (wider vk): 22 known findings, matched by signature so any other C20 violation is still reported. A second defect the proof attempt exposed - a keypad/modifier/repeat parameter >= 2^31 wrapped in atoi (ESC[4294967307~ -> F1) - was repaired in /repo (fix 1071cf8: clamp), the exclusion was removed from the theorem and C20_large_parameter_names_no_key states the repaired behaviour. All 256 idle bytes in idle/after CR/after LF and the whole key space are judged by the oracle. The key tables the model uses are proved equal to the tables regenerated from the .cpp sources on every run (TablesTie). New (C20_faithful / C20_faithful_ctrl, by an invariant over the decoder's scratch members and induction over the stream): for EVERY byte stream from an idle decoder with arbitrary scratch, the control sequence an abstract-key token carries (no private marker) was actually sent - its spelling (meta ESC, 7- or 8-bit introducer, parameters separated by ';', final byte) occurs contiguously in the bytes fed; the oracle applies the same test to every real token of partitioned streams (empty deliveries, synchronous channel).",
    note=INNOTE, technique="Lean 4 proof of the partial statement + proved negation of the full statement on concrete witnesses; exhaustive idle-byte and key-space oracle with known-findings matching", ref="§5 C20")

NOT_YET = {}


def main():
    props = [json.loads(l) for l in open(os.path.join(HERE, "properties.jsonl"))]
    ids = [p["id"] for p in props]
    checks = []
    for pid in ids:
        if pid not in CHECKS:
            continue
        c = CHECKS[pid]
        checks.append({
            "property_id": pid,
            "quick_cmd": "./check %s --tier quick" % pid,
            "thorough_cmd": "./check %s --tier thorough" % pid,
            "evidence_file": "evidence/%s.json" % pid,
            "replay_cmd_template": "./check %s --replay {path}" % pid,
            "engine": "lean-proof+correspondence",
            "level_claimed": {"category": c.get("category", "proof"), "text": c["text"], "design_ref": "DESIGN.md " + c["ref"]},
            "level_note": c["note"],
            "technique": c["technique"],
        })
    na = []
    for pid in ids:
        if pid not in CHECKS:
            na.append({"property_id": pid, "reason": NOT_YET.get(pid, "check under construction in this session: model/theorems/tie not yet committed; not claimed until they are (the technique applies, see DESIGN.md §5)")})
    man = {
        "version": 1,
        "setup_cmd": "./check --setup",
        "hooks": {
            "guard": "TERMINALPP_VERIF",
            "enable": "harness and library objects are compiled with -DTERMINALPP_VERIF by vlib/build.py; no hook is currently needed in /repo (all observation goes through public extension points)",
            "baseline_off_cmd": "./baseline_off.sh",
            "source_commits": [],
            "add_only": True,
        },
        "engines": [
            {"name": "lean-proof+correspondence", "path": "lean/ (model, Ref, theorems, driver), harness/ (extractor, executor), vlib/ (orchestrator)",
             "serves_properties": [c["property_id"] for c in checks],
             "kind_free_text": "Lean 4 theorems about a hand-written model whose data is regenerated from the headers and whose logic is run side by side with the real library (ASan+UBSan) on exhaustive sweeps and seeded random histories; property oracle (Tpp.Ref) evaluated on the real outputs"},
        ],
        "checks": checks,
        "not_applicable": na,
        "notes": "See DESIGN.md. Every check: regenerates Consts.lean from /repo/include, rebuilds the library from /repo/src with sanitizers, rebuilds the property's Lean module, audits axioms and forbidden tokens, runs executor and Lean driver on the same lines, evaluates the property oracle on the real outputs, matches known_findings.json.",
    }
    with open(os.path.join(HERE, "MANIFEST.json"), "w") as fh:
        json.dump(man, fh, indent=1)
        fh.write("\n")


if __name__ == "__main__":
    main()
