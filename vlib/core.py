"""Check protocol shared by all properties (DESIGN.md §7).

A property module (vlib/props/Cxx.py) provides
    ID, TITLE, LEAN_MODULES (Props modules), REQUIRED (theorem names that must exist and be axiom-clean),
    cases(tier, rng) -> list of Case            (correspondence + oracle inputs)
    signature(case, verdict) -> str             (known-findings key for a failing case)
    LEVEL, ASSUMPTIONS, RULE ...
"""
import hashlib
import json
import os
import random
import re
import subprocess
import sys
import time

from . import build

VERIF = build.VERIF
MAX_REPORTED = 5
ALLOWED_AXIOMS = {"propext", "Classical.choice", "Quot.sound"}
FORBIDDEN = re.compile(r"\b(sorry|admit|native_decide|bv_decide|implemented_by|unsafe)\b|^\s*axiom\s|maxHeartbeats\s+0\b")


class Case:
    """one line for the executor/driver. `exhaustive` names the sweep it belongs to (or None);
    `nontrivial` is the property's own rule; `oracle` = evaluate the property oracle on it."""
    __slots__ = ("line", "sweep", "nontrivial", "oracle", "tag", "cfgs")

    def __init__(self, line, sweep=None, nontrivial=True, oracle=True, tag="", cfgs=None):
        self.line = line
        self.sweep = sweep
        self.nontrivial = nontrivial
        self.oracle = oracle
        self.tag = tag
        self.cfgs = cfgs  # oracle configurations (strings) for terminal-type cases


def strip_comments(text):
    # remove /- ... -/ (nested) and -- ... comments
    out = []
    i, depth, n = 0, 0, len(text)
    while i < n:
        if text.startswith("/-", i):
            depth += 1
            i += 2
        elif depth > 0 and text.startswith("-/", i):
            depth -= 1
            i += 2
        elif depth > 0:
            if text[i] == "\n":
                out.append("\n")
            i += 1
        elif text.startswith("--", i):
            while i < n and text[i] != "\n":
                i += 1
        else:
            out.append(text[i])
            i += 1
    return "".join(out)


def lean_sources():
    res = []
    for root, _, files in os.walk(os.path.join(build.LEAN, "Tpp")):
        for f in files:
            if f.endswith(".lean"):
                res.append(os.path.join(root, f))
    res.append(os.path.join(build.LEAN, "Main.lean"))
    return sorted(res)


def forbidden_tokens():
    hits = []
    for path in lean_sources():
        text = strip_comments(open(path).read())
        for ln, line in enumerate(text.split("\n"), 1):
            if FORBIDDEN.search(line):
                hits.append("%s:%d: %s" % (os.path.relpath(path, VERIF), ln, line.strip()[:120]))
    return hits


def theorem_names(module):
    path = os.path.join(build.LEAN, *module.split(".")) + ".lean"
    text = strip_comments(open(path).read())
    ns = None
    m = re.search(r"^namespace\s+(\S+)", text, re.M)
    if m:
        ns = m.group(1)
    names = re.findall(r"^\s*theorem\s+([A-Za-z0-9_'.]+)", text, re.M)
    return [(ns + "." + n) if ns else n for n in names]


def audit_axioms(modules, names):
    """returns (dict name -> list of axioms | None when missing, raw output)"""
    src = "".join("import %s\n" % m for m in modules) + "".join("#print axioms %s\n" % n for n in names)
    rc, out = build.lean_run(src)
    res = {}
    cur = None
    flat = out.replace("\n ", " ").replace("\n  ", " ")
    for n in names:
        short = n
        m = re.search(r"'%s' depends on axioms: \[([^\]]*)\]" % re.escape(short), flat)
        if m:
            res[n] = [a.strip() for a in m.group(1).split(",") if a.strip()]
            continue
        if re.search(r"'%s' does not depend on any axioms" % re.escape(short), flat):
            res[n] = []
            continue
        res[n] = None
    return res, out


def write_json(path, obj):
    os.makedirs(os.path.dirname(path), exist_ok=True)
    tmp = path + ".tmp%d" % os.getpid()
    with open(tmp, "w") as fh:
        json.dump(obj, fh, indent=1, sort_keys=True)
        fh.write("\n")
    os.replace(tmp, path)


def load_corpus(pid):
    """minimised past failures and hand-picked seeds: corpus/<id>.txt, one case per line, optional `cfg | ` prefixes
    separated by ` || ` before the case"""
    path = os.path.join(VERIF, "corpus", pid + ".txt")
    out = []
    if os.path.exists(path):
        for line in open(path):
            line = line.rstrip("\n")
            if not line or line.startswith("#"):
                continue
            cfgs = None
            if " || " in line:
                c, line = line.split(" || ", 1)
                # several configurations are joined by ", " (comma + blank); a configuration itself may contain commas (C05 item lists)
                cfgs = [x.strip() for x in c.split(", ")]
            out.append(Case(line, tag="corpus", cfgs=cfgs))
    return out


def shrink_script(line, still_fails, max_rounds=60, budget_s=30.0):
    """reduction of a `K head ; op ; op …` script: first whole blocks of operations (halving the block size), then one
    operation at a time; still_fails(list of lines) -> list of bool.  Bounded in wall-clock time (long scripts - canvases
    hundreds of cells wide - would otherwise cost minutes per case): the result is then simply less small."""
    if " ; " not in line:
        return line
    t0 = time.time()
    parts = line.split(" ; ")
    head, ops = parts[0], parts[1:]
    size = len(ops) // 2
    while size >= 2 and time.time() - t0 < budget_s:
        starts = list(range(0, len(ops), size))
        cands = [" ; ".join([head] + ops[:i] + ops[i + size:]) for i in starts]
        res = still_fails(cands)
        hit = next((k for k, r in enumerate(res) if r), None)
        if hit is None:
            size //= 2
        else:
            ops = ops[:starts[hit]] + ops[starts[hit] + size:]
            size = min(size, max(2, len(ops) // 2))
    for _ in range(max_rounds):
        if len(ops) <= 1 or time.time() - t0 > budget_s or len(ops) > 150:
            break
        cands = [" ; ".join([head] + ops[:i] + ops[i + 1:]) for i in range(len(ops))]
        res = still_fails(cands)
        hit = next((i for i, r in enumerate(res) if r), None)
        if hit is None:
            break
        ops = ops[:hit] + ops[hit + 1:]
    return " ; ".join([head] + ops)


def load_known():
    p = os.path.join(VERIF, "known_findings.json")
    if not os.path.exists(p):
        return []
    return json.load(open(p)).get("findings", [])


class Result:
    def __init__(self):
        self.violations = []      # (replay_path, suffix)
        self.known = []           # messages
        self.notes = []
        self.suppressed = 0


def run_check(prop, tier, seed, replay=None):
    t0 = time.time()
    pid = prop.ID
    rng = random.Random((seed * 1000003) ^ int(hashlib.sha256(pid.encode()).hexdigest()[:8], 16))
    res = Result()
    replay_dir = os.path.join(VERIF, "replays")
    os.makedirs(replay_dir, exist_ok=True)
    replay_data = json.load(open(replay)) if replay else None
    for old in ([] if replay else os.listdir(replay_dir)):
        if old.startswith(pid + "-"):
            try:
                os.remove(os.path.join(replay_dir, old))
            except OSError:
                pass
    known = [k for k in load_known() if k.get("property") == pid]
    known_active = {k["signature"]: k for k in known if k.get("status", "known") == "known"}

    broken = []        # list of dicts describing broken proof obligations / ties
    tie_ok = True

    # ---- 1. builds: translator (regenerated constants), library + executor from the working tree
    exe = None
    try:
        build.regenerate_consts()
    except build.BuildError as e:
        broken.append({"kind": "translator", "what": e.what, "log": e.log[-4000:]})
    try:
        build.regenerate_tables()
    except build.BuildError as e:
        broken.append({"kind": "translator", "what": e.what, "log": e.log[-4000:]})
    try:
        exe = build.build_harness("exec")
    except build.BuildError as e:
        broken.append({"kind": "harness", "what": e.what, "log": e.log[-4000:]})

    if hasattr(prop, "regenerate"):
        try:
            prop.regenerate(build)
        except build.BuildError as e:
            broken.append({"kind": "translator", "what": e.what, "log": e.log[-4000:]})

    # ---- 2. Lean: property modules + driver
    modules = list(prop.LEAN_MODULES)
    ok, out = build.lake_build(["Tpp.Driver.Run", "driver"])
    driver = build.driver_path() if ok and os.path.exists(build.driver_path()) else None
    if not ok:
        broken.append({"kind": "lean-model", "what": "model/driver does not build", "log": out[-6000:]})
    ok, out = build.lake_build(modules)
    proofs_ok = ok
    if not ok:
        # name the first failing declaration
        m = re.search(r"error: (\S+\.lean:\d+:\d+): (.*)", out)
        broken.append({"kind": "proof", "what": "lake build %s failed" % " ".join(modules),
                       "where": m.group(1) if m else None, "log": out[-6000:]})

    # ---- 3. axiom audit + forbidden tokens
    obligations = []
    discharged = 0
    axioms_seen = set()
    if proofs_ok:
        present = []
        for m_ in modules:
            present += theorem_names(m_)
        names = list(dict.fromkeys(list(prop.REQUIRED) + present))
        ax, raw = audit_axioms(modules, names)
        for n in names:
            a = ax.get(n)
            entry = {"theorem": n, "axioms": a}
            obligations.append(entry)
            if a is None:
                if n in prop.REQUIRED:
                    broken.append({"kind": "proof", "what": "required theorem %s is missing" % n, "log": raw[-2000:]})
            elif set(a) - ALLOWED_AXIOMS:
                broken.append({"kind": "axioms", "what": "%s depends on %s" % (n, sorted(set(a) - ALLOWED_AXIOMS))})
            else:
                discharged += 1
                axioms_seen.update(a)
    else:
        obligations = [{"theorem": n, "axioms": None} for n in prop.REQUIRED]
    hits = forbidden_tokens()
    if hits:
        broken.append({"kind": "forbidden-token", "what": "; ".join(hits[:5])})

    leanchecker = None
    if tier == "thorough" and proofs_ok:
        lc = []
        for m_ in modules:
            rc, o = build.sh(["lake", "env", "leanchecker", m_], cwd=build.LEAN, timeout=3600)
            lc.append({"module": m_, "ok": rc == 0})
            if rc != 0:
                broken.append({"kind": "leanchecker", "what": "leanchecker rejected %s" % m_, "log": o[-3000:]})
        leanchecker = lc

    # ---- 4. correspondence: executor ∥ driver on the same lines
    cases = prop.cases(tier, rng) if replay is None else [Case(l, cfgs=replay_data.get("cfgs")) for l in replay_data.get("lines", [])]
    if replay is None:
        cases = load_corpus(pid) + cases
    lines = [c.line for c in cases]
    disagreements = []
    real = model = None
    sanitizer = None
    if exe is not None:
        rc, real, err = build.run_lines(exe, lines)
        if rc != 0 or len(real) != len(lines):
            sanitizer = {"rc": rc, "stderr": err[-6000:], "answered": len(real)}
    if driver is not None:
        rc2, model, err2 = build.run_lines(driver, lines)
        if rc2 != 0 or len(model) != len(lines):
            broken.append({"kind": "driver", "what": "driver failed rc=%s answered=%s/%s" % (rc2, len(model), len(lines)), "log": err2[-2000:]})
            model = None
    if sanitizer is not None:
        # the executor died: the first unanswered line is the failing input
        idx = min(sanitizer["answered"], len(lines) - 1)
        path = os.path.join(replay_dir, "%s-crash-%s.json" % (pid, hashlib.sha256(lines[idx].encode()).hexdigest()[:10]))
        write_json(path, {"property": pid, "kind": "executor-abort", "lines": [lines[idx]], "detail": sanitizer})
        if hasattr(prop, "crash_is_violation") and prop.crash_is_violation:
            res.violations.append((path, ""))
        else:
            res.violations.append((path, ""))
        real = None
    if real is not None and model is not None:
        for i, (a, b) in enumerate(zip(real, model)):
            if a != b:
                disagreements.append(i)
        if disagreements:
            tie_ok = False

    # ---- 5. property oracle on the implementation's observed behaviour
    oracle_fail = []
    oracle_runs = 0
    if real is not None and driver is not None:
        olines, oidx = [], []
        for i, c in enumerate(cases):
            if not c.oracle:
                continue
            for cfg in (c.cfgs or [""]):
                olines.append("O" + (cfg + " | " if cfg else "") + c.line + " # " + real[i])
                oidx.append(i)
        if olines:
            rc3, verdicts, err3 = build.run_lines(driver, olines)
            if rc3 != 0 or len(verdicts) != len(olines):
                broken.append({"kind": "driver", "what": "oracle pass failed rc=%s" % rc3, "log": err3[-2000:]})
            else:
                oracle_runs = len(olines)
                for j, v in enumerate(verdicts):
                    if v != "ok" and prop.verdict_concerns(v):
                        oracle_fail.append((oidx[j], olines[j], v))

    # ---- 5b. property-specific runtime harness (child processes, threads …)
    custom = None
    is_harness_replay = bool(replay_data) and replay_data.get("kind") == "runtime-harness" and hasattr(prop, "custom_replays")
    if hasattr(prop, "custom_check") and (replay is None or is_harness_replay):
        try:
            ctx = {"exe": exe, "driver": driver, "build": build}
            if is_harness_replay:
                # replaying a failure of the runtime harness: the same object set / script through the same harness
                ctx["replay"] = replay_data
            custom = prop.custom_check(tier, rng, ctx)
        except build.BuildError as e:
            broken.append({"kind": "harness", "what": e.what, "log": e.log[-4000:]})
            custom = None
        except subprocess.TimeoutExpired as e:
            # a child process of the runtime harness never finished: the library hung on that input
            custom = {"failures": [{"what": "runtime harness child did not finish within %s s (hang)" % e.timeout,
                                    "signature": pid + " harness-timeout", "lines": [str(e.cmd)[:300]]}]}
        if custom:
            for f in custom.get("failures", []):
                sig = f.get("signature", pid + ":" + f.get("what", "")[:80])
                if sig in known_active:
                    res.known.append("KNOWN-FINDING: property=%s %s" % (pid, known_active[sig].get("what", sig)))
                    continue
                if len(res.violations) >= MAX_REPORTED:
                    res.suppressed += 1
                    continue
                path = os.path.join(replay_dir, "%s-%s.json" % (pid, hashlib.sha256(json.dumps(f, sort_keys=True).encode()).hexdigest()[:10]))
                write_json(path, dict(f, property=pid, kind="runtime-harness"))
                res.violations.append((path, ""))

    # ---- 6. classify
    seen_sigs = set()
    for i, oline, v in oracle_fail:
        sig = prop.signature(cases[i], v)
        if sig in known_active:
            if sig not in seen_sigs:
                res.known.append("KNOWN-FINDING: property=%s %s" % (pid, known_active[sig].get("what", sig)))
            seen_sigs.add(sig)
            continue
        if sig in seen_sigs:
            continue
        seen_sigs.add(sig)
        if len(res.violations) >= MAX_REPORTED:
            res.suppressed += 1
            continue
        path = os.path.join(replay_dir, "%s-%s.json" % (pid, hashlib.sha256(oline.encode()).hexdigest()[:10]))
        cfg = oline[1:].split(" | ")[0] if " | " in oline.split(" # ")[0] else ""
        minimal = cases[i].line

        def still_fails(cands, cfg=cfg, sig=sig, i=i):
            rcx, rx, ex = build.run_lines(exe, cands)
            if rcx != 0 or len(rx) != len(cands):
                return [False] * len(cands)
            ol = ["O" + (cfg + " | " if cfg else "") + c + " # " + a for c, a in zip(cands, rx)]
            rcy, vy, ey = build.run_lines(driver, ol)
            if rcy != 0 or len(vy) != len(ol):
                return [False] * len(cands)
            return [(vv != "ok" and prop.verdict_concerns(vv) and prop.signature(Case(c), vv).split(":")[0] == sig.split(":")[0]) for c, vv in zip(cands, vy)]
        try:
            if len(res.violations) < 3:
                minimal = shrink_script(cases[i].line, still_fails)
        except Exception:
            minimal = cases[i].line
        write_json(path, {"property": pid, "kind": "oracle", "signature": sig, "lines": [minimal], "cfgs": [cfg] if cfg else None,
                          "original_line": cases[i].line if minimal != cases[i].line else None,
                          "oracle_line": oline, "verdict": v, "real": real[i],
                          "model": model[i] if model else None})
        res.violations.append((path, ""))
    new_oracle_violation = bool(res.violations)
    # disagreements that coincide with a known finding (model has the repaired behaviour) are not alarms
    unexplained = []
    if disagreements:
        failing_idx = {i for i, _, _ in oracle_fail}
        for i in disagreements:
            if i in failing_idx:
                continue
            unexplained.append(i)
    widened = 0
    if (broken or unexplained) and not new_oracle_violation and exe is not None and driver is not None and replay is None:
        # the property is no longer shown to hold: look harder for a concrete failing input on the real code
        for extra in range(1, 5):
            rng2 = random.Random(((seed + 7919 * extra) * 1000003) ^ int(hashlib.sha256(pid.encode()).hexdigest()[:8], 16))
            more = [c for c in prop.cases("quick", rng2) if c.oracle]
            if not more:
                break
            rcw, realw, errw = build.run_lines(exe, [c.line for c in more])
            if rcw != 0 or len(realw) != len(more):
                break
            ol, oi = [], []
            for k, c in enumerate(more):
                for cfgx in (c.cfgs or [""]):
                    ol.append("O" + (cfgx + " | " if cfgx else "") + c.line + " # " + realw[k])
                    oi.append(k)
            rcv, vw, ev_ = build.run_lines(driver, ol)
            widened += len(ol)
            if rcv != 0 or len(vw) != len(ol):
                break
            hit = next((j for j, vv in enumerate(vw) if vv != "ok" and prop.verdict_concerns(vv)
                        and prop.signature(more[oi[j]], vv) not in known_active), None)
            if hit is not None:
                path = os.path.join(replay_dir, "%s-widened-%s.json" % (pid, hashlib.sha256(ol[hit].encode()).hexdigest()[:10]))
                cfgx = ol[hit][1:].split(" | ")[0] if " | " in ol[hit].split(" # ")[0] else ""
                write_json(path, {"property": pid, "kind": "oracle-widened-search", "lines": [more[oi[hit]].line], "cfgs": [cfgx] if cfgx else None,
                                  "oracle_line": ol[hit], "verdict": vw[hit], "real": realw[oi[hit]], "broken": broken})
                res.violations.append((path, ""))
                new_oracle_violation = True
                break
    if (broken or unexplained) and not new_oracle_violation:
        path = os.path.join(replay_dir, "%s-unproved.json" % pid)
        detail = {"property": pid, "kind": "unproved", "broken": broken}
        if unexplained:
            i = unexplained[0]
            detail["correspondence"] = {"component": lines[i][:1], "first_differing_line": lines[i],
                                        "real": real[i], "model": model[i], "count": len(unexplained)}
            detail["lines"] = [lines[i]]
        write_json(path, detail)
        res.violations.append((path, " no-failing-input-found"))

    # ---- 7. evidence
    distinct = set()
    for c in cases:
        if c.nontrivial:
            distinct.add(c.line)
    sweeps = {}
    for c in cases:
        if c.sweep:
            sweeps[c.sweep] = sweeps.get(c.sweep, 0) + 1
    tags = {}
    for c in cases:
        if c.tag:
            tags[c.tag] = tags.get(c.tag, 0) + 1
    samples = []
    step_ = max(1, len(cases) // 5)
    for i in range(0, len(cases), step_):
        samples.append({"input": cases[i].line[:400], "real": (real[i][:400] if real else None),
                        "model": (model[i][:400] if model else None)})
        if len(samples) >= 6:
            break
    ev = {
        "property_id": pid,
        "tier": tier,
        "seed": seed,
        "level": prop.LEVEL,
        "coverage": {
            "obligations": max(1, len(obligations)),
            "discharged": discharged,
            "obligation_list": obligations,
            "checker_cmd": "cd lean && lake build %s && lake env lean <#print axioms …>%s" % (" ".join(modules), " && lake env leanchecker <module>" if tier == "thorough" else ""),
            "trusted_base": prop.TRUSTED_BASE + ["axioms used: " + (", ".join(sorted(axioms_seen)) or "none")],
            "leanchecker": leanchecker,
            "evaluations": len(cases),
            "distinct_nontrivial": len(distinct),
            "rule": prop.RULE,
            "samples": samples or [{"note": "no cases"}],
            "exhaustive_sweeps": sweeps,
            "exhaustive": bool(sweeps) and getattr(prop, "ALL_EXHAUSTIVE", False),
            "input_distribution": tags,
            "correspondence": {"lines": len(lines), "disagreements": len(disagreements),
                               "executor": "harness/exec.cpp linked against /repo working tree, ASan+UBSan",
                               "tie_ok": tie_ok and not any(b["kind"] in ("translator", "harness") for b in broken)},
            "oracle_evaluations": oracle_runs,
            "widened_search_oracle_evaluations": widened,
            "oracle_failures": len(oracle_fail),
            "known_findings_reproduced": len(res.known),
            "broken": [{"kind": b["kind"], "what": b["what"]} for b in broken],
            "regenerated": "lean/Tpp/Generated/Consts.lean from /repo/include (harness/extract_consts.cpp)",
            "runtime_harness": ({k: v for k, v in custom.items() if k != "failures"} if custom else None),
        },
        "assumptions": prop.ASSUMPTIONS,
        "wall_s": round(time.time() - t0, 2),
        "violations": len(res.violations),
    }
    if replay is None:
        write_json(os.path.join(VERIF, "evidence", pid + ".json"), ev)
    return res, ev


def main(argv, props):
    import argparse
    ap = argparse.ArgumentParser()
    ap.add_argument("prop", nargs="?")
    ap.add_argument("--tier", default=os.environ.get("VERIF_TIER", "quick"))
    ap.add_argument("--replay")
    ap.add_argument("--setup", action="store_true")
    a = ap.parse_args(argv)
    seed = int(os.environ.get("VERIF_SEED", "1") or "1")
    if a.setup:
        t0 = time.time()
        try:
            build.regenerate_consts()
            build.regenerate_tables()
            build.build_harness("exec")
            from . import statics
            statics.generate()
        except build.BuildError as e:
            print("setup: build problem:", e.what)
            print(e.log[-3000:])
        ok, out = build.lake_build(["Tpp", "driver"])
        print(out[-3000:])
        print("setup done in %.1fs ok=%s" % (time.time() - t0, ok))
        return 0 if ok else 1
    if a.prop not in props:
        print("unknown property", a.prop, "known:", sorted(props))
        return 2
    tier = a.tier if a.tier in ("quick", "thorough") else "quick"
    res, ev = run_check(props[a.prop], tier, seed, a.replay)
    for k in res.known:
        print(k)
    for path, suffix in res.violations:
        print("VIOLATION property=%s replay=%s%s" % (a.prop, path, suffix))
    cov = ev["coverage"]
    print("%s %s: %d/%d obligations, %d cases (%d distinct non-trivial), %d disagreements, %d oracle evaluations, %.1fs"
          % (a.prop, tier, cov["discharged"], cov["obligations"], cov["evaluations"], cov["distinct_nontrivial"],
             cov["correspondence"]["disagreements"], cov["oracle_evaluations"], ev["wall_s"]))
    return 1 if res.violations else 0
