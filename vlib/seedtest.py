#!/usr/bin/env python3
"""Run registered checks against a seeded change:  python3 vlib/seedtest.py seeded/<id> [C01 C08 …]
Applies seeded/<id>/patch.diff to /repo (git apply), runs the quick checks, ALWAYS restores /repo."""
import json
import os
import subprocess
import sys
import time

HERE = os.path.dirname(os.path.dirname(os.path.abspath(__file__)))


def report(p, r, out, results, t0, fix_path=None):
    viol = [l for l in out.split("\n") if l.startswith("VIOLATION")]
    if fix_path:
        viol = [fix_path(v) for v in viol]
    results[p] = {"exit": r.returncode, "violations": viol[:3], "wall_s": round(time.time() - t0, 1)}
    kind = "-" if r.returncode == 0 else ("no-failing-input-found" if viol and all("no-failing-input-found" in v for v in viol) else "FAILING-INPUT")
    print("%s exit=%d %s %s" % (p, r.returncode, kind, viol[0][:140] if viol else ""))
    for v in viol[:1]:
        path = v.split("replay=")[1].split()[0]
        if os.path.exists(path):
            try:
                rep = json.load(open(path))
                print("    ", (rep.get("verdict") or rep.get("what") or str(rep.get("broken", ""))[:200])[:220])
                print("    ", (rep.get("lines") or [""])[0][:200])
            except Exception:
                pass


def isolated(patch, props, tier):
    """the same, without touching /repo or /verif: the patch is applied to a scratch worktree of /repo HEAD and the checks
    run in a private copy of /verif with VERIF_REPO pointing at that worktree (several of these may run at once)"""
    import shutil
    import tempfile
    wt = tempfile.mkdtemp(prefix="seedwt-", dir="/var/tmp")
    os.rmdir(wt)
    vc = tempfile.mkdtemp(prefix="seedv-", dir="/var/tmp")
    results = {}
    try:
        if subprocess.run(["git", "-C", "/repo", "worktree", "add", "-q", "--detach", wt, "HEAD"]).returncode != 0:
            print("cannot create worktree")
            return 2
        if subprocess.run(["git", "-C", wt, "apply", patch]).returncode != 0:
            print("patch does not apply")
            return 2
        subprocess.run(["rsync", "-a", "--exclude", ".git", "--exclude", "build", "--exclude", "replays", "--exclude", "seeded",
                        HERE + "/", vc + "/"], check=True)
        env = dict(os.environ, VERIF_REPO=wt)
        env.pop("SEED_ISOLATED", None)
        os.makedirs(os.path.join(HERE, "replays"), exist_ok=True)

        def fix_path(v):
            old = v.split("replay=")[1].split()[0]
            new = os.path.join(HERE, "replays", os.path.basename(old))
            if os.path.exists(old):
                shutil.copy(old, new)
            return v.replace(old, new)
        for p in props:
            t0 = time.time()
            r = subprocess.run([os.path.join(vc, "check"), p, "--tier", tier], stdout=subprocess.PIPE, stderr=subprocess.STDOUT, cwd=vc, env=env)
            report(p, r, r.stdout.decode("utf-8", "replace"), results, t0, fix_path)
    finally:
        subprocess.run(["git", "-C", "/repo", "worktree", "remove", "--force", wt])
        shutil.rmtree(wt, ignore_errors=True)
        shutil.rmtree(vc, ignore_errors=True)
    print(json.dumps(results))
    return 0


def main():
    d = sys.argv[1]
    props = sys.argv[2:]
    patch = os.path.join(HERE, d, "patch.diff") if not os.path.isabs(d) else os.path.join(d, "patch.diff")
    if not props:
        man = json.load(open(os.path.join(HERE, "MANIFEST.json")))
        props = [c["property_id"] for c in man["checks"]]
    tier = os.environ.get("SEED_TIER", "quick")
    if os.environ.get("SEED_ISOLATED"):
        return isolated(patch, props, tier)
    st = subprocess.run(["git", "-C", "/repo", "status", "--porcelain", "--untracked-files=no"], stdout=subprocess.PIPE).stdout.decode().strip()
    if st:
        print("refusing: /repo has local modifications:\n" + st)
        return 2
    rc = subprocess.run(["git", "-C", "/repo", "apply", patch]).returncode
    if rc != 0:
        print("patch does not apply")
        return 2
    results = {}
    try:
        for p in props:
            t0 = time.time()
            r = subprocess.run([os.path.join(HERE, "check"), p, "--tier", tier], stdout=subprocess.PIPE, stderr=subprocess.STDOUT, cwd=HERE)
            out = r.stdout.decode("utf-8", "replace")
            viol = [l for l in out.split("\n") if l.startswith("VIOLATION")]
            results[p] = {"exit": r.returncode, "violations": viol[:3], "wall_s": round(time.time() - t0, 1)}
            kind = "-" if r.returncode == 0 else ("no-failing-input-found" if viol and all("no-failing-input-found" in v for v in viol) else "FAILING-INPUT")
            print("%s exit=%d %s %s" % (p, r.returncode, kind, viol[0][:140] if viol else ""))
            for v in viol[:1]:
                path = v.split("replay=")[1].split()[0]
                if os.path.exists(path):
                    try:
                        rep = json.load(open(path))
                        print("    ", (rep.get("verdict") or rep.get("what") or str(rep.get("broken", ""))[:200])[:220])
                        print("    ", (rep.get("lines") or [""])[0][:200])
                    except Exception:
                        pass
    finally:
        subprocess.run(["git", "-C", "/repo", "checkout", "--", "."])
    print(json.dumps(results))
    return 0


if __name__ == "__main__":
    sys.exit(main())
