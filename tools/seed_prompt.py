#!/usr/bin/env python3
"""seed_prompt.py <prop> <worktree> <outdir>: print the prompt given to a fresh sub-agent that is asked for two
changes breaking one property.  The agent sees the property text, its worktree and one-line descriptions of the
changes already collected for that property (so it writes something different) - nothing else from /verif."""
import glob
import json
import os
import sys

HERE = os.path.dirname(os.path.abspath(__file__))


def earlier(prop):
    out = []
    for d in sorted(glob.glob(os.path.join(HERE, "..", "seeded", prop + "-*"))):
        try:
            m = json.load(open(os.path.join(d, "meta.json")))
        except Exception:
            continue
        t = m.get("needs_to_manifest") or m.get("needs")
        if not t:
            try:
                t = open(os.path.join(d, "notes.md")).readline().strip("# \n")
            except Exception:
                t = None
        if t:
            out.append(t)
    return out


def main():
    prop, wt, outdir = sys.argv[1:4]
    p = None
    for l in open(os.path.join(HERE, "..", "properties.jsonl")):
        q = json.loads(l)
        if q["id"] == prop:
            p = q
    text = json.dumps({k: p[k] for k in ("id", "title", "statement", "quantifier", "why_tests_cant", "anchors")}, indent=1)
    prev = earlier(prop)
    print(f"""You are helping to evaluate a verification effort for the C++20 library KazDragon/terminalpp (ANSI/VT100 terminal
library: attributed strings, escape-sequence encoding with state diffing, input byte parser).  Your job is to play the
part of a developer who makes a plausible change to the library that BREAKS one semantic property while everything
still compiles and the existing unit-test suite still passes.  Produce TWO different such changes.

Your private scratch git worktree of the library is {wt} (a checkout of the current HEAD).  Work ONLY inside that
directory and inside {outdir} (create it).  Do not read or write /verif or /repo.  There is no network.

THE PROPERTY (this is all you are told about what is being verified):

{text}

WHAT MAKES A GOOD CHANGE
* It is something a maintainer could plausibly commit: an optimisation, a refactoring, a tidy-up, a new fast path, a
  cache, a changed guard, a reordered statement, an off-by-one at a boundary, two edits in different places that each
  look fine alone.  It need not be small, but it must look like real development, not sabotage.
* It must need something SPECIFIC in order to manifest: a particular multi-step history of operations, an unusual
  input or boundary value, a particular interleaving or split, a particular configuration flag combination, two
  cooperating sites.  A change that ordinary use would expose at once is of no use.
* The library must still build and ALL existing tests must still pass with the change (see commands below).
* The two changes must be different in mechanism from each other, and different from these changes that have already
  been collected for this property (described by what they need in order to manifest):
{os.linesep.join('    - ' + t for t in prev) if prev else '    (none yet)'}
* Prefer a change in code the property's anchors point at, but any file of the library is allowed (src/, include/).
  Do not edit the tests.
* The verification effort being evaluated drives the library through a test harness and compares it with a model.  Look
  for places such a harness is LEAST likely to reach: alternative constructors and overloads, rarely used public entry
  points, capability flags nobody sets, degenerate or extreme but legal argument values (zero, one, maximum, negative
  where the type allows it), unusual orders of otherwise ordinary calls, objects that are copied / moved / reused,
  behaviour that only differs on the second or third repetition of something.

COMMANDS (run inside the worktree)
  build + tests:
    cmake -G Ninja -B _b -DCMAKE_BUILD_TYPE=RelWithDebInfo -DTERMINALPP_WITH_TESTS=ON -DCMAKE_PREFIX_PATH=/root/miniconda -DCMAKE_CXX_FLAGS=-Wno-error . >/dev/null && cmake --build _b -j6 2>&1 | tail -3 && ./_b/terminalpp_tester --gtest_brief=1 | tail -3
  (736 tests must pass.)  Configuring generates include/terminalpp/detail/export.hpp and include/terminalpp/version.hpp in the tree;
  they are git-ignored, leave them.
  a stand-alone demonstration program is compiled against the library SOURCES like this (TREE = the worktree):
    g++ -std=gnu++20 -O1 -w -DFMT_SHARED -ITREE/include -isystem /root/miniconda/include demo.cpp $(find TREE/src -name '*.cpp') -L/root/miniconda/lib -lfmt -Wl,-rpath,/root/miniconda/lib -lpthread -o demo

DELIVERABLES, in {outdir}:
  patch1.diff, patch2.diff   each = `git diff` of the worktree against HEAD for ONE change alone (reset the tree with
                             `git checkout -- .` between the two; each patch must apply to a clean HEAD with `git apply`)
  demo1.cpp, demo2.cpp       a self-contained program (only the library's public/detail headers + the standard library) that
                             exits 0 on the unmodified library and exits non-zero (printing what went wrong) with the change
                             applied.  It must judge the PROPERTY (e.g. by interpreting the emitted bytes the way a terminal
                             would, or comparing decoded tokens with what was sent), not merely compare against bytes
                             recorded from the old version.  It must terminate within a minute.
  notes1.md, notes2.md       first line: `# ` + one sentence saying what the change needs in order to manifest; then: what
                             the change is dressed up as, which clause of the property it breaks, the shortest failing scenario.
Before you finish, verify yourself for EACH change: (a) patch applies to a clean tree, (b) build + 736 tests pass with it,
(c) demo exits 0 without it and non-zero with it.  Leave the worktree clean of your edits at the end (`git checkout -- .`) and delete the
_b directory and any binaries you built there.  In your final answer say, per change, one line on what it is and confirm (a)(b)(c).
""")


if __name__ == "__main__":
    main()
