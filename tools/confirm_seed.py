#!/usr/bin/env python3
"""Independent confirmation of a candidate seeded change:
   confirm_seed.py <dir with patchN.diff demoN.cpp> <N> <out.json>
  (1) patch applies to a fresh scratch worktree of /repo HEAD, (2) the library builds and the unedited test suite
  passes with it, (3) the demo exits 0 on the clean tree and non-zero with the patch.  The worktree is removed."""
import json
import os
import shutil
import subprocess
import sys
import tempfile


def sh(cmd, cwd=None, timeout=1800):
    p = subprocess.run(cmd, cwd=cwd, shell=isinstance(cmd, str), stdout=subprocess.PIPE, stderr=subprocess.STDOUT, timeout=timeout)
    return p.returncode, p.stdout.decode("utf-8", "replace")


def main():
    d, n, out = sys.argv[1], sys.argv[2], sys.argv[3]
    patch = os.path.join(d, "patch%s.diff" % n)
    demo = os.path.join(d, "demo%s.cpp" % n)
    res = {"patch": patch, "demo": demo}
    wt = tempfile.mkdtemp(prefix="seedwt-", dir="/var/tmp")
    os.rmdir(wt)
    try:
        rc, o = sh(["git", "-C", "/repo", "worktree", "add", "-q", "--detach", wt, "HEAD"])
        rc, o = sh(["git", "-C", wt, "apply", patch])
        res["applies"] = rc == 0
        if rc != 0:
            res["apply_log"] = o[-500:]
            return res
        rc, o = sh("cmake -G Ninja -B _b -DCMAKE_BUILD_TYPE=RelWithDebInfo -DTERMINALPP_WITH_TESTS=ON -DCMAKE_PREFIX_PATH=/root/miniconda -DCMAKE_CXX_FLAGS=-Wno-error . > /dev/null 2>&1 && cmake --build _b -j6 2>&1 | tail -5", cwd=wt)
        res["builds"] = rc == 0 and os.path.exists(os.path.join(wt, "_b", "terminalpp_tester"))
        if not res["builds"]:
            res["build_log"] = o[-1500:]
            return res
        rc, o = sh("./_b/terminalpp_tester --gtest_brief=1 2>&1 | tail -5", cwd=wt)
        res["tests_tail"] = o[-400:]
        res["tests_pass"] = "PASSED" in o and "FAILED" not in o
        # demo against the patched tree
        def build_demo(tree, exe):
            srcs = subprocess.run("find %s/src -name '*.cpp'" % tree, shell=True, stdout=subprocess.PIPE).stdout.decode().split()
            inc = ["-I%s/include" % tree, "-I/verif/harness/fallback_include", "-I" + d]
            return sh(["g++", "-std=gnu++20", "-O1", "-w", "-DFMT_SHARED"] + inc + ["-isystem", "/root/miniconda/include", demo] + srcs +
                      ["-L/root/miniconda/lib", "-lfmt", "-Wl,-rpath,/root/miniconda/lib", "-lpthread", "-o", exe])
        rc, o = build_demo(wt, os.path.join(wt, "demo_patched"))
        res["demo_builds_patched"] = rc == 0
        if rc == 0:
            rc, o = sh([os.path.join(wt, "demo_patched")], timeout=600)
            res["demo_patched_exit"] = rc
            res["demo_patched_tail"] = o[-600:]
        else:
            res["demo_build_log"] = o[-800:]
        sh(["git", "-C", wt, "checkout", "--", "."])
        rc, o = build_demo(wt, os.path.join(wt, "demo_clean"))
        if rc == 0:
            rc, o = sh([os.path.join(wt, "demo_clean")], timeout=600)
            res["demo_clean_exit"] = rc
        res["confirmed"] = bool(res.get("tests_pass") and res.get("demo_patched_exit", 0) != 0 and res.get("demo_clean_exit", 1) == 0)
        return res
    finally:
        sh(["git", "-C", "/repo", "worktree", "remove", "--force", wt])
        shutil.rmtree(wt, ignore_errors=True)
        json.dump(res, open(out, "w"), indent=1)


if __name__ == "__main__":
    r = main()
    print(json.dumps({k: v for k, v in (r or {}).items() if k in ("applies", "builds", "tests_pass", "demo_patched_exit", "demo_clean_exit", "confirmed")}))
