#!/usr/bin/env python3
"""seed_table.py: print the DESIGN.md table of seeded changes from seeded/*/meta.json (and fill in
needs_to_manifest / what_i_ran from notes.md where the intake did not record them)."""
import glob
import json
import os

HERE = os.path.dirname(os.path.dirname(os.path.abspath(__file__)))
rows = []
for d in sorted(glob.glob(os.path.join(HERE, "seeded", "C*-*"))):
    sid = os.path.basename(d)
    mp = os.path.join(d, "meta.json")
    if not os.path.exists(mp):
        continue
    m = json.load(open(mp))
    if not m.get("needs_to_manifest"):
        try:
            m["needs_to_manifest"] = open(os.path.join(d, "notes.md")).readline().strip("# \n")
        except Exception:
            m["needs_to_manifest"] = "?"
    m.setdefault("what_i_ran", [
        "tools/confirm_seed.py: git apply on a scratch worktree of /repo HEAD, cmake build, ./terminalpp_tester (736 gtest cases must pass), demo built against patched and clean tree (exit codes above)",
        "tools/run_seeds.py -> vlib/seedtest.py: patch applied (git apply) to /repo or, with SEED_ISOLATED=1, to a scratch worktree used through VERIF_REPO by a private copy of /verif; ./check <property> --tier quick; tree restored / worktree removed"])
    json.dump(m, open(mp, "w"), indent=1)
    fi = [k for k, v in m.get("checks", {}).items() if v.get("kind") == "failing-input"]
    nf = [k for k, v in m.get("checks", {}).items() if v.get("kind") == "no-failing-input-found"]
    missed = [k for k, v in m.get("checks", {}).items() if v.get("kind") == "none"]
    needs = m["needs_to_manifest"].replace("|", "/")
    rows.append("| %s | %s | %s | %s | %s |" % (sid, m.get("breaks", "?"), needs[:230], ", ".join(fi) or ("MISSED: " + ", ".join(missed) if missed else "–"), ", ".join(nf) or "–"))
print("| seed | breaks | needs, in order to manifest | checks reporting a concrete failing input | no-failing-input-found |")
print("|---|---|---|---|---|")
print("\n".join(rows))
