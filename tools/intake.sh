#!/bin/bash
# intake.sh <prop> <srcdir> <first-index>: stage patchN/demoN/notesN from srcdir as seeded/<prop>-<k>, confirm, run target check
prop=$1; src=$2; k=$3
cd "$(dirname "$0")/.."
for n in 1 2; do
  [ -f $src/patch$n.diff ] || continue
  sid=$prop-$k; d=seeded/$sid; mkdir -p $d
  cp $src/patch$n.diff $d/patch.diff; cp $src/demo$n.cpp $d/demo.cpp; cp $src/notes$n.md $d/notes.md 2>/dev/null
  for h in $src/*.hpp $src/*.h; do [ -f "$h" ] && cp $h $d/; done
  mkdir -p /tmp/confirm; cp $src/patch$n.diff /tmp/confirm/stage-$sid.diff
  # confirm_seed expects patchN/demoN names in a dir
  tmpd=$(mktemp -d /var/tmp/intake.XXXX); cp $d/patch.diff $tmpd/patch1.diff; cp $d/demo.cpp $tmpd/demo1.cpp; for h in $d/*.hpp $d/*.h; do [ -f "$h" ] && cp $h $tmpd/; done
  python3 tools/confirm_seed.py $tmpd 1 /tmp/confirm/$sid.json > /tmp/confirm/$sid.log 2>&1
  rm -rf $tmpd
  echo "$sid confirm: $(cat /tmp/confirm/$sid.log | cut -c1-140)"
  python3 - <<PY
import json
m={"breaks":"$prop","source":"round ${ROUND:-3}: written by a fresh sub-agent given only the property text, a scratch worktree of /repo and one-line descriptions of the round-1 changes to avoid (no access to /verif)"}
json.dump(m,open("$d/meta.json","w"),indent=1)
PY
  python3 tools/run_seeds.py $sid $prop 2>&1 | grep -E "^C[0-9]|^    " | cut -c1-230
  k=$((k+1))
done
