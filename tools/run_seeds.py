#!/usr/bin/env python3
"""run_seeds.py <seed-id> <props…>: run checks against seeded/<id>, write seeded/<id>/meta.json (merging confirm data)"""
import json, os, subprocess, sys
HERE = os.path.dirname(os.path.dirname(os.path.abspath(__file__)))
sid = sys.argv[1]; props = sys.argv[2:]
d = os.path.join(HERE, "seeded", sid)
p = subprocess.run([sys.executable, os.path.join(HERE, "vlib", "seedtest.py"), "seeded/" + sid] + props, stdout=subprocess.PIPE, stderr=subprocess.STDOUT, cwd=HERE)
out = p.stdout.decode("utf-8", "replace")
print(out[:3000])
res = json.loads(out.strip().split("\n")[-1])
meta_path = os.path.join(d, "meta.json")
meta = json.load(open(meta_path)) if os.path.exists(meta_path) else {}
conf = os.path.join("/tmp/confirm", sid + ".json")
if os.path.exists(conf):
    c = json.load(open(conf))
    meta["confirmation"] = {k: c.get(k) for k in ("applies", "builds", "tests_pass", "tests_tail", "demo_patched_exit", "demo_clean_exit", "confirmed")}
meta.setdefault("checks", {}).update({k: {"exit": v["exit"], "violation_lines": v["violations"], "kind": ("none" if v["exit"] == 0 else ("no-failing-input-found" if v["violations"] and all("no-failing-input-found" in x for x in v["violations"]) else "failing-input"))} for k, v in res.items()})
# keep the first replay of every reporting check next to the seed, and feed its (shrunk) input to the corpus
import re, shutil
for k, v in res.items():
    for line in v["violations"][:1]:
        m = re.search(r"replay=(\S+)", line)
        if m and os.path.exists(m.group(1)):
            dst = os.path.join(d, "replay-%s.json" % k)
            shutil.copy(m.group(1), dst)
            try:
                rep = json.load(open(dst))
                # (a verdict that blames the GENERATOR is a defect of the machinery, never corpus material - DESIGN 11.16)
                if rep.get("kind", "").startswith("oracle") and rep.get("lines") and "generator" not in str(rep.get("verdict", "")):
                    cpath = os.path.join(HERE, "corpus", k + ".txt")
                    have = open(cpath).read() if os.path.exists(cpath) else ""
                    entry = ((", ".join(rep["cfgs"]) + " || ") if rep.get("cfgs") else "") + rep["lines"][0]
                    if entry not in have and len(entry) < 4000:
                        with open(cpath, "a") as fh:
                            fh.write("# from seed %s\n%s\n" % (sid, entry))
            except Exception as e:
                print("corpus:", e)
json.dump(meta, open(meta_path, "w"), indent=1)
