#!/bin/bash
# re-run every seed against the check of the property it targets (and nothing else); prints one line per seed
cd "$(dirname "$0")/.."
for d in seeded/*/; do
  sid=$(basename $d)
  prop=$(python3 -c "import json;print(json.load(open('$d/meta.json'))['breaks'])")
  out=$(python3 tools/run_seeds.py $sid $prop 2>&1 | grep -E "^$prop exit" | cut -c1-110)
  echo "$sid: $out"
done
