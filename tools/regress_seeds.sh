#!/bin/bash
# re-run every seed against the check of the property it targets (and nothing else); prints one line per seed.
# PAR=<n> (default 4) seeds at a time, each in a private copy of /verif against a scratch worktree (SEED_ISOLATED).
cd "$(dirname "$0")/.."
ls -d seeded/C*-*/ | xargs -P ${PAR:-4} -I{} sh -c '
  d={}; sid=$(basename $d)
  prop=$(python3 -c "import json;print(json.load(open(\"$d/meta.json\"))[\"breaks\"])")
  out=$(SEED_ISOLATED=1 python3 tools/run_seeds.py $sid $prop 2>&1 | grep -E "^$prop exit" | cut -c1-110)
  echo "$sid: $out"'
